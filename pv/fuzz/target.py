"""M7 - atheris fuzz target with the semantic oracles of C01 / C04 inside.

Input layout (structured provider): byte 0 selects the entry point and options, the rest is the body.
  sel & 3 == 0 : RTCMMessage(payload=body)                     C04 whitelist
  sel & 3 == 1 : RTCMReader.parse(body, validate=(sel>>2)&1)   C04 whitelist
  sel & 3 >= 2 : stream: next byte n = script length, next n bytes = read script (0xff = full read, else cap),
                 rest = stream data; quitonerror=(sel>>2)%3     C01 slice validity + C04 whitelist + call budget
check_bytes(data) raises pv.core.Fail on a violation; the libFuzzer driver turns that into a crash file.
Run as a campaign:  python -m pv.fuzz.target <corpus_dir> -runs=N -seed=S -artifact_prefix=DIR/
"""

import os
import sys


def check_bytes(data: bytes, which=("C01", "C04")):
    from pv import framing
    from pv.checks.c04 import guarded, lib_errors
    from pv.core import Fail
    from pv.doubles import ScriptedStream

    if not data:
        return "empty"
    sel = data[0]
    body = data[1:]
    mode = 2 if tuple(which) == ("C01",) else sel & 3  # C01 campaigns spend everything on the stream reader
    if mode == 0:
        from pyrtcm import RTCMMessage

        k, v = guarded(lambda: RTCMMessage(payload=body, labelmsm=1 + ((sel >> 2) & 1)), f"RTCMMessage({body.hex()[:60]}..)")
        return "ctor-" + k
    if mode == 1:
        from pyrtcm import RTCMReader

        k, _ = guarded(lambda: RTCMReader.parse(body, validate=(sel >> 2) & 1), f"RTCMReader.parse({body.hex()[:60]}..)")
        return "static-" + k
    from pyrtcm import RTCMReader

    if not body:
        return "stream-empty"
    n = body[0] % 32
    script = [None if b == 0xFF else b % 16 for b in body[1 : 1 + n]]
    stream_data = body[1 + n :]
    qoe = (sel >> 2) % 3
    stream = ScriptedStream(stream_data, script, slack=32)
    rdr = RTCMReader(stream, validate=1, quitonerror=qoe, parsed=True)
    prev_end = 0
    steps = 0
    delivered = 0
    while True:
        steps += 1
        if steps > 2 * (len(stream_data) + len(script)) + 64:
            raise Fail("non-termination", f"driver made {steps} read() calls over {len(stream_data)} bytes")
        try:
            raw, parsed = rdr.read()
        except lib_errors() as e:
            if qoe != 2:
                raise Fail(f"iterator-raised-in-mode-{qoe}:{type(e).__name__}", str(e)) from e
            continue
        except Fail:
            raise
        except Exception as e:  # pylint: disable=broad-except
            from pv.core import lib_frame

            raise Fail(f"foreign-exception:{type(e).__name__}@{lib_frame(e)}", f"stream read: {type(e).__name__}: {e}") from e
        if raw is None and parsed is None:
            if stream.exhausted:
                break
            continue
        delivered += 1
        if "C01" in which:
            prob = framing.frame_problem(bytes(raw))
            if prob is not None:
                raise Fail("malformed-frame-delivered", f"{prob}: {bytes(raw).hex()[:60]}")
            s = stream_data.find(raw, prev_end)
            if s < 0 or s + len(raw) > stream.pos:
                raise Fail("not-a-contiguous-ordered-slice", f"{bytes(raw).hex()[:40]}.. len {len(raw)}")
            prev_end = s + len(raw)
            if parsed is None or parsed.payload != raw[3:-3]:
                raise Fail("payload-mismatch", "parsed payload differs from raw[3:-3]")
            if str(parsed.identity) != framing.ref_identity(raw[3:-3]):
                raise Fail("message-number-mismatch", f"identity {parsed.identity!r} vs {framing.ref_identity(raw[3:-3])!r}")
    return f"stream-delivered{min(delivered, 2)}"


def main():
    import atheris

    with atheris.instrument_imports(include=["pyrtcm"]):
        import pyrtcm  # noqa: F401  pylint: disable=unused-import
        import pyrtcm.rtcmmessage  # noqa: F401
        import pyrtcm.rtcmreader  # noqa: F401
    from pv import core  # noqa: F401  (quiet logging)

    which = tuple(os.environ.get("PV_FUZZ_WHICH", "C01,C04").split(","))

    def one(data):
        check_bytes(bytes(data), which)

    atheris.Setup(sys.argv, one)
    atheris.Fuzz()


if __name__ == "__main__":
    main()
