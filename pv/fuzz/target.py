"""M7 - atheris fuzz target with the semantic oracles of C01 / C04 inside.

Input layout (structured provider): byte 0 selects the entry point and options, the rest is the body.
  sel & 3 == 0 : RTCMMessage(payload=body)                     C04 whitelist
  sel & 3 == 1 : RTCMReader.parse(body, validate=(sel>>2)&1)   C04 whitelist
  sel & 3 >= 2 : stream: next byte n = script length, next n bytes = read script (0xff = full read, else cap),
                 rest = stream data; quitonerror=(sel>>2)%3     C01 slice validity + C04 whitelist + call budget
check_bytes(data) raises pv.core.Fail on a violation; the libFuzzer driver turns that into a crash file.
Run as a campaign:  python -m pv.fuzz.target <corpus_dir> -runs=N -seed=S -artifact_prefix=DIR/
"""

import os
import sys


def check_bytes(data: bytes, which=("C01", "C04")):
    from pv import framing
    from pv.checks.c04 import guarded, lib_errors
    from pv.core import Fail
    from pv.doubles import ScriptedStream

    if not data:
        return "empty"
    from pv import core

    core.note_input(len(data) + 16)  # the step count (core._count_library_steps) needs the size of what the library is handed
    if tuple(which) == ("C06",):
        return check_c06(data)
    if tuple(which) == ("C12",):
        return check_c12(data)
    sel = data[0]
    body = data[1:]
    mode = 2 if tuple(which) == ("C01",) else sel & 3  # C01 campaigns spend everything on the stream reader
    if mode == 0:
        from pyrtcm import RTCMMessage

        k, v = guarded(lambda: RTCMMessage(payload=body, labelmsm=1 + ((sel >> 2) & 1)), f"RTCMMessage({body.hex()[:60]}..)")
        return "ctor-" + k
    if mode == 1:
        from pyrtcm import RTCMReader

        k, _ = guarded(lambda: RTCMReader.parse(body, validate=(sel >> 2) & 1), f"RTCMReader.parse({body.hex()[:60]}..)")
        return "static-" + k
    from pyrtcm import RTCMReader

    if not body:
        return "stream-empty"
    n = body[0] % 32
    script = [None if b == 0xFF else b % 16 for b in body[1 : 1 + n]]
    stream_data = body[1 + n :]
    qoe = (sel >> 2) % 3
    stream = ScriptedStream(stream_data, script, slack=32)
    rdr = RTCMReader(stream, validate=1, quitonerror=qoe, parsed=True)
    prev_end = 0
    steps = 0
    delivered = 0
    while True:
        steps += 1
        if steps > 2 * (len(stream_data) + len(script)) + 64:
            raise Fail("non-termination", f"driver made {steps} read() calls over {len(stream_data)} bytes")
        try:
            raw, parsed = rdr.read()
        except lib_errors() as e:
            if qoe != 2:
                raise Fail(f"iterator-raised-in-mode-{qoe}:{type(e).__name__}", str(e)) from e
            continue
        except Fail:
            raise
        except Exception as e:  # pylint: disable=broad-except
            from pv.core import lib_frame

            raise Fail(f"foreign-exception:{type(e).__name__}@{lib_frame(e)}", f"stream read: {type(e).__name__}: {e}") from e
        if raw is None and parsed is None:
            if stream.exhausted:
                break
            continue
        delivered += 1
        if "C01" in which:
            prob = framing.frame_problem(bytes(raw))
            if prob is not None:
                raise Fail("malformed-frame-delivered", f"{prob}: {bytes(raw).hex()[:60]}")
            s = stream_data.find(raw, prev_end)
            if s < 0 or s + len(raw) > stream.pos:
                raise Fail("not-a-contiguous-ordered-slice", f"{bytes(raw).hex()[:40]}.. len {len(raw)}")
            prev_end = s + len(raw)
            if parsed is None or parsed.payload != raw[3:-3]:
                raise Fail("payload-mismatch", "parsed payload differs from raw[3:-3]")
            if str(parsed.identity) != framing.ref_identity(raw[3:-3]):
                raise Fail("message-number-mismatch", f"identity {parsed.identity!r} vs {framing.ref_identity(raw[3:-3])!r}")
    return f"stream-delivered{min(delivered, 2)}"


def check_c06(data: bytes):
    """arbitrary payload bytes: the constructor returns iff the independent interpreter does not overrun, and then
    every value agrees (C06 differential, also C03's oracle)"""
    from pyrtcm import RTCMMessage

    from pv import framing, model
    from pv.checks.c03 import compare
    from pv.core import Fail

    p = bytes(data[:1023])
    ident = framing.ref_identity(p)
    if ident is None or model.definition(ident) is None:
        return "undefined"
    try:
        _, w = model.decode(p, ident)
    except model.Overrun:
        w = None
    try:
        m = RTCMMessage(payload=p)
    except Exception:  # pylint: disable=broad-except
        m = None
    if m is None and w is not None:
        raise Fail("complete-message-rejected", f"{ident}: all fields fit in {len(p)} bytes but the constructor raised; payload {p.hex()[:120]}")
    if m is not None and w is None:
        raise Fail("overrunning-message-accepted", f"{ident}: fields need more than {len(p)} bytes but a message was returned; payload {p.hex()[:120]}")
    if m is not None:
        compare(p, w, m, "fuzz")
        return "accepted"
    return "rejected"


def check_c12(data: bytes):
    """bytes -> (encoding, chunk bodies, partition, bufsize); oracle = reference chunk decoder on the unsegmented stream"""
    from pv.checks import c12

    if len(data) < 3:
        return "short"
    enc = ["none", "none", "gzip", "compress", "deflate"][data[0] % 5]
    term = bool(data[0] & 0x80)
    ncuts = data[1] % 8
    bufsize = [4096, 4096, 1, 3, 16, 64][data[2] % 6]
    pos = 3
    cutraw = data[pos : pos + 2 * ncuts]
    pos += 2 * ncuts
    chunks = []
    while pos < len(data) and len(chunks) < 5:
        ln = data[pos] % 48
        pos += 1
        chunks.append(bytes(data[pos : pos + ln]))
        pos += ln
    if enc == "none":
        chunks = [c for c in chunks if c]
    case = {"chunks": [c.hex() for c in chunks], "enc": enc, "hexcase": [data[0] >> 5 & 3], "terminator": term, "mode": "generated", "wbits": [15, 9, 12][data[1] >> 6 & 3 if (data[1] >> 6 & 3) < 3 else 0], "level": 6}
    n = len(c12.encode(case)[0])
    case["cuts"] = sorted({(cutraw[i] << 8 | cutraw[i + 1]) % n for i in range(0, len(cutraw) - 1, 2)} - {0}) if n > 1 else []
    case["bufsize"] = bufsize
    c12.o_chunked(case)
    return f"enc-{enc}"


def main():
    import atheris

    with atheris.instrument_imports(include=["pyrtcm"]):
        import pyrtcm  # noqa: F401  pylint: disable=unused-import
        import pyrtcm.rtcmmessage  # noqa: F401
        import pyrtcm.rtcmreader  # noqa: F401
    from pv import core  # noqa: F401  (quiet logging)

    which = tuple(os.environ.get("PV_FUZZ_WHICH", "C01,C04").split(","))

    def one(data):
        check_bytes(bytes(data), which)

    atheris.Setup(sys.argv, one)
    atheris.Fuzz()


if __name__ == "__main__":
    main()
