"""atheris campaigns wrapped as a sub-check: run libFuzzer in a child process on pv.fuzz.target, then re-evaluate
every crash input and the coverage-selected corpus in-process through the same oracle (so failures are bucketed,
written as JSON replays and reproducible without atheris)."""

import glob
import os
import re
import shutil
import subprocess
import sys

from pv import core
from pv.core import Res, Sub


def _seed_corpus(d, seed, prop="C01"):
    """a few small valid inputs: frames recorded in the repository's test logs + generated messages"""
    import hypothesis
    from hypothesis import given, settings

    from pv import framing, gen

    n = 0
    if prop == "C12":
        for k, body in enumerate((b"\x00\x00\x00\x05hello", b"\x80\x01\x00\x00\x03\x03abc\x02de", b"\x02\x02\x00\x00\x04\x00\x09\x0bhello world\x03abc", b"\x83\x00\x01\x04\r\n0\r\x02\r\n")):
            open(os.path.join(d, f"c12-{k}"), "wb").write(body)
        return 4
    raw_only = prop == "C06"
    logs = sorted(glob.glob(os.path.join(core.REPO, "tests", "*.log")))
    for path in logs:
        data = open(path, "rb").read()
        i = 0
        taken = 0
        while i < len(data) - 6 and taken < 12:
            if data[i] == 0xD3 and not data[i + 1] & 0xFC:
                size = ((data[i + 1] & 3) << 8) | data[i + 2]
                fr = data[i : i + size + 6]
                if len(fr) == size + 6 and framing.frame_problem(fr) is None:
                    for sel, body in ((0, fr[3:-3]), (5, fr), (2, b"\x00" + fr)):
                        if raw_only and sel != 0:
                            continue
                        open(os.path.join(d, f"log{n:04d}"), "wb").write((b"" if raw_only else bytes([sel])) + body)
                        n += 1
                    taken += 1
                    i += len(fr)
                    continue
            i += 1
    out = []

    @hypothesis.seed(seed)
    @settings(max_examples=40, database=None, deadline=None, phases=[hypothesis.Phase.generate], suppress_health_check=list(hypothesis.HealthCheck))
    @given(gen.any_message("small"))
    def collect(c):
        out.append(bytes.fromhex(c["payload"]))

    collect()
    for p in out:
        open(os.path.join(d, f"gen{n:04d}"), "wb").write((b"" if raw_only else b"\x00") + p)
        n += 1
        if not raw_only:
            open(os.path.join(d, f"gen{n:04d}"), "wb").write(b"\x02\x00" + framing.build_frame(p))
            n += 1
    return n


def make(prop, which, runs=(20000, 400000), shards=(4, 16)):
    from pv.fuzz.target import check_bytes

    def enum(tier, shard, nshards):
        try:
            import atheris  # noqa: F401  pylint: disable=unused-import
        except ImportError:
            yield {"campaign": {"execs": 0, "corpus": "atheris-unavailable", "units": 0}}
            return
        vseed = int(os.environ.get("VERIF_SEED", "1") or "1")
        seed = core.derive_seed(vseed, f"fuzz-{prop}", shard) % (2**31 - 1) + 1
        work = os.path.join(core.ROOT, ".work", f"{prop}-fuzz-{os.getpid()}-{shard}")
        corpus = os.path.join(work, "corpus")
        shutil.rmtree(work, ignore_errors=True)
        os.makedirs(corpus)
        try:
            kind = "seeded" if shard % 2 else "empty"
            if kind == "seeded":
                _seed_corpus(corpus, seed, prop)
            n = runs[0] if tier == "quick" else runs[1]
            n = max(100, int(n * float(os.environ.get("PV_SCALE", "1"))))
            cmd = [sys.executable, "-m", "pv.fuzz.target", corpus, f"-runs={n}", f"-seed={seed}", f"-artifact_prefix={work}/", "-max_len=1200", "-print_final_stats=1", "-timeout=60"]
            p = subprocess.run(cmd, cwd=core.ROOT, capture_output=True, text=True, timeout=3 * 3600, check=False, env=dict(os.environ, PV_FUZZ_WHICH=",".join(which)))
            m = re.search(r"stat::number_of_executed_units:\s*(\d+)", p.stderr)
            execs = int(m.group(1)) if m else 0
            files = sorted(glob.glob(os.path.join(corpus, "*")))
            crashes = sorted(glob.glob(os.path.join(work, "crash-*")) + glob.glob(os.path.join(work, "timeout-*")))
            if p.returncode != 0 and not crashes:
                raise core.HarnessError(f"fuzz campaign exited {p.returncode} without an artifact: {p.stderr[-400:]}")
            yield {"campaign": {"execs": execs, "corpus": kind, "units": len(files), "seed": seed}}
            for f in crashes:
                yield {"input": open(f, "rb").read().hex()}
            for f in files[:400]:
                yield {"input": open(f, "rb").read().hex()}
        finally:
            shutil.rmtree(work, ignore_errors=True)

    def oracle(case):
        if "campaign" in case:
            c = case["campaign"]
            return Res(False, [f"campaign-{c['corpus']}"], evals=c["execs"])
        r = check_bytes(bytes.fromhex(case["input"]), which)
        return Res(nontrivial=r not in ("empty", "stream-empty", "stream-delivered0", "undefined", "short"), classes=[r])

    return Sub(
        "atheris_campaign",
        oracle,
        enum=enum,
        shards=shards,
        rule="coverage-guided libFuzzer campaign (atheris) on one structured entry function with the property's oracle inside; empty and seeded corpora; the corpus it keeps and every crash input are re-judged in-process; evaluations counts libFuzzer executions",
        sample=lambda c: c if "campaign" in c else {"input": c["input"][:120]},
    )
