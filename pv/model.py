"""M1 - independent interpreter of pyrtcm's payload-definition language.

Written from the documented definition language (rtcmtypes_get.py module
docstring, README "Extensibility") and the text of property C03; shares no
code with rtcmmessage.py.  It reads the repository's tables as *data*.

  plain field             consume `width` bits
  (int, dict)             fixed repeat
  (name, dict)            repeat by an attribute decoded earlier
  ("name+k", dict)        the counter attribute is suffixed with the first k current indices
  ((name, value), dict)   conditional group
  DF396                   width = NSat * NSig
  IDF035                  count + 1 (4076_201 layers)
  _NHarmCoeffC/S          nc = (N+1)(N+2)/2 - (N-M)(N-M+1)/2, ns = nc - (N+1), N = IDF037+1, M = IDF038+1
  PRN / CELLPRN / CELLSIG zero-width derived labels

Attribute name = field key + one _%02d per nesting level.  Values: UINT/BIT raw,
INT two's complement, SNT sign-magnitude, CHA chr, STR code units joined (NUL
elided) into one attribute named by the bare key; then x resolution unless the
resolution is 0 or 1.
"""

from collections import namedtuple

BUDGET = 1023 * 8

Item = namedtuple("Item", "attr key idx typ width raw value bit0")


class Overrun(Exception):
    """a field extends past the end of the payload (decode mode)"""


class BadDefinition(Exception):
    """the definition table itself is malformed"""


class Derived:
    """placeholder for PRN / CELLPRN / CELLSIG values (judged by C09 against pins)"""

    __slots__ = ("kind", "index")

    def __init__(self, kind, index):
        self.kind = kind
        self.index = index

    def __repr__(self):
        return f"<derived {self.kind}[{self.index}]>"


_T = {}


def tables():
    """the repository's tables, read as data (fresh per process)"""
    if not _T:
        from pyrtcm.rtcmtypes_core import RTCM_DATA_FIELDS
        from pyrtcm.rtcmtypes_get import RTCM_PAYLOADS_GET
        from pyrtcm.rtcmtypes_get_igs import RTCM_PAYLOADS_GET_IGS
        from pyrtcm.rtcmtypes_get_msm import RTCM_PAYLOADS_GET_MSM

        import copy

        # deep copies taken when the harness first looks at the tables (before it has parsed anything): the
        # interpreter must describe the definitions as shipped, also if the library were to write into them later
        _T["F"] = copy.deepcopy(RTCM_DATA_FIELDS)
        _T["GET"] = copy.deepcopy(RTCM_PAYLOADS_GET)
        _T["MSM"] = copy.deepcopy(RTCM_PAYLOADS_GET_MSM)
        _T["IGS"] = copy.deepcopy(RTCM_PAYLOADS_GET_IGS)
    return _T


def definition(ident):
    """documented dispatch: MSM block 1070-1229, IGS 4076_xxx, everything else the standard table"""
    t = tables()
    if ident.startswith("4076_"):
        return t["IGS"].get(ident)
    try:
        n = int(ident)
    except ValueError:
        return None
    if 1070 <= n <= 1229:
        return t["MSM"].get(ident)
    return t["GET"].get(ident)


def identities():
    """every identity with a definition, in table order"""
    t = tables()
    return list(t["GET"]) + list(t["MSM"]) + list(t["IGS"])


def ident_numbers(ident):
    if "_" in ident:
        a, b = ident.split("_")
        return int(a), int(b)
    return int(ident), None


def popcount(x):
    return bin(x).count("1")


def value_of(typ, width, res, raw):
    if typ == "CHA":
        return chr(raw)
    if typ == "SNT":
        mag = raw & ((1 << (width - 1)) - 1)
        v = -mag if raw >> (width - 1) else mag
    elif typ == "INT":
        v = raw - (1 << width) if raw >> (width - 1) else raw
    else:
        v = raw
    if res not in (0, 1):
        v = v * res
    return v


def harm_counts(n_raw, m_raw):
    N, M = n_raw + 1, m_raw + 1
    nc = (N + 1) * (N + 2) // 2 - ((N - M) * (N - M + 1)) // 2
    return nc, nc - (N + 1)


def counter_base(cnt):
    return cnt.split("+")[0] if isinstance(cnt, str) else None


# minimum iterations of groups whose count is not a plain decoded value
_MIN_ITERS = {"IDF035": 1, "_NHarmCoeffC": 3, "_NHarmCoeffS": 1}


def min_bits(d):
    """minimum number of bits a definition (sub)dict occupies: counters 0, conditions false"""
    F = tables()["F"]
    if not isinstance(d, dict):
        return 0
    total = 0
    for k, v in d.items():
        if isinstance(v, tuple):
            cnt, sub = v
            if isinstance(cnt, int):
                total += cnt * min_bits(sub)
            elif isinstance(cnt, str):
                total += _MIN_ITERS.get(counter_base(cnt), 0) * min_bits(sub)
        elif k in F:
            total += F[k][1]
    return total


class Walk:
    """one pass over a definition.  source(key, width, walk, idx) -> raw integer"""

    def __init__(self, ident, source, defn=None):
        self.ident = ident
        self.source = source
        self.defn = definition(ident) if defn is None else defn
        self.vals = {}  # expected public attributes, in order
        self.env = {}  # private counters
        self.items = []
        self.nbits = 0
        self.tail_min = 0  # minimum bits still to come after the field being drawn (encode mode aid)
        self.counters = set()  # keys used as repeat designators
        self.per_iter = 0  # bits per iteration of the group(s) counted by the field being drawn
        self.scratch = {}
        self.stats = {"groups": 0, "iters": 0, "optional": 0, "nested": 0, "maxidx": 0}

    def run(self):
        if self.defn is None:
            raise BadDefinition(f"no definition for {self.ident}")
        self._walk(self.defn, (), 0)
        return self

    # ------------------------------------------------------------
    def _lookup(self, name):
        if name in self.vals:
            return self.vals[name]
        if name in self.env:
            return self.env[name]
        raise BadDefinition(f"counter/condition '{name}' not decoded before use in {self.ident}")

    def _walk(self, d, idx, after):
        if not isinstance(d, dict):
            raise BadDefinition(f"group body in {self.ident} is {type(d).__name__}, not dict")
        keys = list(d)
        rest = [0] * (len(keys) + 1)
        for j in range(len(keys) - 1, -1, -1):
            rest[j] = rest[j + 1] + min_bits({keys[j]: d[keys[j]]})
        for j, k in enumerate(keys):
            v = d[k]
            tail = rest[j + 1] + after
            if isinstance(v, tuple):
                if len(v) != 2:
                    raise BadDefinition(f"group '{k}' in {self.ident} is not a 2-tuple")
                cnt, sub = v
                if not isinstance(sub, dict):
                    raise BadDefinition(f"group body '{k}' in {self.ident} is {type(sub).__name__}, not dict")
                if isinstance(cnt, tuple):
                    if len(cnt) != 2:
                        raise BadDefinition(f"condition of '{k}' in {self.ident} malformed")
                    if self._lookup(cnt[0]) == cnt[1]:
                        self.stats["optional"] += 1
                        self._walk(sub, idx, tail)
                    continue
                if isinstance(cnt, bool) or not isinstance(cnt, (int, str)):
                    raise BadDefinition(f"repeat designator of '{k}' in {self.ident} is {cnt!r}")
                if isinstance(cnt, int):
                    n = cnt
                else:
                    nm = cnt
                    if "+" in nm:
                        nm, lv = nm.split("+")
                        lv = int(lv)
                        if lv > len(idx):
                            raise BadDefinition(f"'{cnt}' used at nesting depth {len(idx)} in {self.ident}")
                        for i in range(lv):
                            nm += f"_{idx[i]:02d}"
                    self.counters.add(counter_base(cnt))
                    n = self._lookup(nm)
                    if not isinstance(n, int):
                        raise BadDefinition(f"counter '{nm}' in {self.ident} is not an integer ({n!r})")
                    if nm == "IDF035":
                        n += 1
                self.stats["groups"] += 1
                if idx:
                    self.stats["nested"] += 1
                body = min_bits(sub)
                for i in range(n):
                    self.stats["iters"] += 1
                    if i + 1 > self.stats["maxidx"]:
                        self.stats["maxidx"] = i + 1
                    self._walk(sub, idx + (i + 1,), (n - i - 1) * body + tail)
            else:
                # bits per iteration of later groups in this dict counted by this key
                per = 0
                for k2 in keys[j + 1 :]:
                    v2 = d[k2]
                    if isinstance(v2, tuple) and isinstance(v2[0], str) and counter_base(v2[0]) == k:
                        per += min_bits(v2[1])
                self.tail_min, self.per_iter = tail, per
                self._field(k, idx)

    def _field(self, key, idx):
        F = tables()["F"]
        if key not in F:
            raise BadDefinition(f"field '{key}' in {self.ident} is not a defined data field")
        typ, width, res, _ = F[key]
        attr = key + "".join(f"_{i:02d}" for i in idx)
        if typ in ("PRN", "CPR", "CSG"):
            if not idx:
                raise BadDefinition(f"derived field '{key}' outside a group in {self.ident}")
            self.vals[attr] = Derived(typ, idx[0])
            self.items.append(Item(attr, key, idx, typ, 0, 0, self.vals[attr], self.nbits))
            return
        if key == "DF396":
            width = self._lookup("NSat") * self._lookup("NSig")
        raw = self.source(key, width, self, idx)
        if not 0 <= raw < (1 << width) and not (width == 0 and raw == 0):
            raise AssertionError(f"source returned {raw} for {key} width {width}")
        if typ == "STR":
            self.vals[key] = self.vals.get(key, "") + ("" if raw == 0 else chr(raw))
            val = self.vals[key]
        else:
            val = value_of(typ, width, res, raw)
            self.vals[attr] = val
        self.items.append(Item(attr, key, idx, typ, width, raw, val, self.nbits))
        self.nbits += width
        if key == "DF394":
            self.vals["NSat"] = popcount(raw)
        elif key == "DF395":
            self.vals["NSig"] = popcount(raw)
        elif key == "DF396":
            self.vals["NCell"] = popcount(raw)
        elif key == "IDF038":
            i = idx[0]
            nc, ns = harm_counts(self._lookup(f"IDF037_{i:02d}"), self._lookup(f"IDF038_{i:02d}"))
            self.env["_NHarmCoeffC"] = nc
            self.env["_NHarmCoeffS"] = ns

    # ------------------------------------------------------------
    def bits(self):
        """the fields laid out in definition order, as (integer, bit count)"""
        v = 0
        for it in self.items:
            v = (v << it.width) | it.raw
        return v, self.nbits

    def payload(self, padbits=0, tail=b""):
        v, n = self.bits()
        pad = (-n) % 8
        v = (v << pad) | (padbits & ((1 << pad) - 1))
        return v.to_bytes((n + pad) // 8, "big") + tail

    def expected(self):
        """[(attr, value)] in order; derived labels carry a Derived placeholder"""
        return list(self.vals.items())


class BitReader:
    def __init__(self, payload):
        self.total = len(payload) * 8
        self.v = int.from_bytes(payload, "big")
        self.pos = 0

    def __call__(self, key, width, walk, idx):
        if self.pos + width > self.total:
            raise Overrun(f"{key}{list(idx)} needs bits {self.pos}..{self.pos + width} of {self.total}")
        r = (self.v >> (self.total - self.pos - width)) & ((1 << width) - 1)
        self.pos += width
        return r


def decode(payload, ident=None):
    """(identity, Walk | None).  Raises Overrun / BadDefinition."""
    from pv.framing import ref_identity

    if ident is None:
        ident = ref_identity(payload)
    if ident is None or definition(ident) is None:
        return ident, None
    return ident, Walk(ident, BitReader(payload)).run()


def replace_field(payload, item, newraw):
    """payload with the bits of one field occurrence replaced"""
    total = len(payload) * 8
    v = int.from_bytes(payload, "big")
    shift = total - item.bit0 - item.width
    mask = ((1 << item.width) - 1) << shift
    v = (v & ~mask) | (newraw << shift)
    return v.to_bytes(len(payload), "big")


def probe_source(ident, ones):
    """deterministic source: identity fields right, every counter / flag / mask 0 (ones=False) or small and non-zero (ones=True)"""
    mid, sub = ident_numbers(ident)

    def s(key, width, w, idx):
        if key == "DF002" and w.nbits == 0:
            return mid
        if key == "IDF002":
            return sub if sub is not None else 0
        if key == "DF394":
            return (0b101 << 61) if ones else 0
        if key == "DF395":
            return (0b11 << 30) if ones else 0
        if key == "DF396":
            return (1 << width) - 1 if ones else 0
        if width == 0:
            return 0
        if key in ("IDF037", "IDF038"):
            return 0
        return 1 if ones else 0

    return s


def check_all_definitions():
    """walk every definition with all counters 0 and with all counters / flags 1; raises BadDefinition"""
    for ident in identities():
        for ones in (False, True):
            Walk(ident, probe_source(ident, ones)).run()
