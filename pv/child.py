"""child interpreters: the same library in another process mode (python -O, cold start with threads).

The child scripts import nothing but pyrtcm and the standard library; everything they report is judged in the parent."""

import json
import os
import subprocess
import sys

from pv import core

_DECODE = r'''
import json, sys
from pyrtcm import RTCMMessage
from pyrtcm.rtcmhelpers import att2idx, att2name, datadesc
for line in sys.stdin:
    req = json.loads(line)
    p = bytes.fromhex(req["payload"])
    try:
        m = RTCMMessage(payload=p, labelmsm=req.get("lm", 1))
    except Exception as e:
        print(json.dumps({"ok": False, "exc": type(e).__name__}))
        continue
    attrs = [[k, v] for k, v in m.__dict__.items() if not k.startswith("_")]
    helpers = []
    if req.get("helpers"):
        for k, _ in attrs:
            try:
                d = datadesc(k)
            except Exception as e:
                d = {"exc": type(e).__name__}
            try:
                i = att2idx(k); n = att2name(k)
            except Exception as e:
                i = n = {"exc": type(e).__name__}
            helpers.append([k, d, list(i) if isinstance(i, tuple) else i, isinstance(i, tuple), n])
    print(json.dumps({"ok": True, "identity": m.identity, "attrs": attrs, "helpers": helpers}))
print("DONE")
'''

_COLD = r'''
import json, sys, threading
req = json.loads(sys.stdin.read())
sys.setswitchinterval(1e-6)
payloads = [bytes.fromhex(p) for p in req["payloads"]]
frames = [bytes.fromhex(f) for f in req["frames"]]
out = {}
start = threading.Barrier(req["threads"])
def work(t):
    # the library is imported, but NOTHING has been parsed or check-summed yet in this process
    from pyrtcm import RTCMMessage, RTCMReader
    from pyrtcm.rtcmhelpers import calc_crc24q
    start.wait()
    res = []
    for k in range(len(payloads)):
        kk = (k + t) % len(payloads)
        try:
            m = RTCMMessage(payload=payloads[kk], labelmsm=1 + (kk & 1))
            res.append([kk, "ok", [[a, v] for a, v in m.__dict__.items() if not a.startswith("_")]])
        except Exception as e:
            res.append([kk, "exc", type(e).__name__])
    crc = []
    for k in range(len(frames)):
        kk = (k + t) % len(frames)
        try:
            crc.append([kk, calc_crc24q(frames[kk][:-3]), calc_crc24q(frames[kk])])
        except Exception as e:
            crc.append([kk, "exc", type(e).__name__])
    out[t] = {"parse": res, "crc": crc}
import pyrtcm  # noqa
ts = [threading.Thread(target=work, args=(t,)) for t in range(req["threads"])]
[t.start() for t in ts]; [t.join() for t in ts]
print(json.dumps(out))
print("DONE")
'''


def _die_with_parent():
    """children must not outlive the runner (an orphan that loops would burn a core for hours)"""
    try:
        import ctypes
        import signal

        ctypes.CDLL("libc.so.6", use_errno=True).prctl(1, signal.SIGKILL)  # PR_SET_PDEATHSIG
    except Exception:  # pylint: disable=broad-except
        pass


def _run(script, stdin_text, optimize=False, timeout=240):
    env = dict(os.environ, PYTHONPATH=core.REPO_SRC)
    env.pop("PYTHONOPTIMIZE", None)
    cmd = [sys.executable] + (["-O"] if optimize else []) + ["-c", script]
    try:
        r = subprocess.run(cmd, input=stdin_text, capture_output=True, text=True, env=env, timeout=timeout, check=False, preexec_fn=_die_with_parent)
    except subprocess.TimeoutExpired:
        # wall clock: inconclusive by rule, never a violation (the same inputs are judged in-process by the step count)
        raise core.HarnessError(f"child interpreter did not finish within {timeout}s (inconclusive)") from None
    lines = r.stdout.strip().splitlines()
    if not lines or lines[-1] != "DONE":
        raise core.HarnessError(f"child interpreter failed: {r.stderr[-400:]}")
    return lines[:-1]


def decode_in_child(requests, optimize=True):
    """requests: [{'payload': hex, 'lm': 1, 'helpers': bool}] -> list of result dicts"""
    lines = _run(_DECODE, "\n".join(json.dumps(r) for r in requests) + "\n", optimize=optimize)
    return [json.loads(l) for l in lines]


def cold_start_threads(payloads, frames, threads=6):
    lines = _run(_COLD, json.dumps({"payloads": [p.hex() for p in payloads], "frames": [f.hex() for f in frames], "threads": threads}))
    return json.loads(lines[0])
