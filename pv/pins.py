"""M5 - tables pinned in the harness (independent of the repository's tables).

Provenance: RTCM 10403.3 tables 3.5-91 (GPS), 3.5-96 (GLONASS), 3.5-99 (Galileo),
3.5-102 (SBAS), 3.5-105 (QZSS), 3.5-108 (BeiDou), 3.5-108.3 (NavIC) for the MSM
signal-ID -> RINEX observation code mapping, as also transcribed in RTKLIB's
rtcm3.c msm_sig_* arrays; satellite-ID -> PRN conventions from the same standard
(SBAS 120.., QZSS 193..) and pyrtcm's README (three-digit labels); message lengths
from the message tables of RTCM 10403.3 and IGS SSR v1.00, cross-checked against
RTKLIB's decoders and the recorded frames in /repo/tests.
"""

# constellation prefix -> name used in the harness
CONS = {"107": "GPS", "108": "GLONASS", "109": "GALILEO", "110": "SBAS", "111": "QZSS", "112": "BEIDOU", "113": "NAVIC"}


def _codes(*pairs):
    return dict(pairs)


# signal ID (1..32) -> RINEX observation code
RINEX = {
    "GPS": _codes((2, "1C"), (3, "1P"), (4, "1W"), (8, "2C"), (9, "2P"), (10, "2W"), (15, "2S"), (16, "2L"), (17, "2X"), (22, "5I"), (23, "5Q"), (24, "5X"), (30, "1S"), (31, "1L"), (32, "1X")),
    "GLONASS": _codes((2, "1C"), (3, "1P"), (8, "2C"), (9, "2P")),
    "GALILEO": _codes((2, "1C"), (3, "1A"), (4, "1B"), (5, "1X"), (6, "1Z"), (8, "6C"), (9, "6A"), (10, "6B"), (11, "6X"), (12, "6Z"), (14, "7I"), (15, "7Q"), (16, "7X"), (18, "8I"), (19, "8Q"), (20, "8X"), (22, "5I"), (23, "5Q"), (24, "5X")),
    "SBAS": _codes((2, "1C"), (22, "5I"), (23, "5Q"), (24, "5X")),
    "QZSS": _codes((2, "1C"), (9, "6S"), (10, "6L"), (11, "6X"), (15, "2S"), (16, "2L"), (17, "2X"), (22, "5I"), (23, "5Q"), (24, "5X"), (30, "1S"), (31, "1L"), (32, "1X")),
    "BEIDOU": _codes((2, "2I"), (3, "2Q"), (4, "2X"), (8, "6I"), (9, "6Q"), (10, "6X"), (14, "7I"), (15, "7Q"), (16, "7X"), (22, "5D"), (23, "5P"), (24, "5X"), (25, "7D"), (30, "1D"), (31, "1P"), (32, "1X")),
    "NAVIC": _codes((22, "5A")),
}

NA = "N/A"


def prn_label(cons, sat_id):
    """label of satellite ID 1..64 under the constellation's numbering; NA outside the defined range"""
    if cons in ("GPS", "BEIDOU"):
        return f"{sat_id:03d}" if 1 <= sat_id <= 63 else NA
    if cons == "GLONASS":
        return f"{sat_id:03d}" if 1 <= sat_id <= 24 else NA
    if cons == "GALILEO":
        if 1 <= sat_id <= 50:
            return f"{sat_id:03d}"
        return {51: "GIOVE-A", 52: "GIOVE-B"}.get(sat_id, NA)
    if cons == "SBAS":
        return f"{sat_id + 119:03d}" if 1 <= sat_id <= 39 else NA
    if cons == "QZSS":
        return f"{sat_id + 192:03d}" if 1 <= sat_id <= 10 else NA
    if cons == "NAVIC":
        return f"{sat_id:03d}" if 1 <= sat_id <= 14 else NA
    raise KeyError(cons)


# epoch field per constellation (RTCM 10403.3 MSM header tables)
EPOCH_FIELD = {"GPS": "DF004", "GLONASS": "DF034", "GALILEO": "DF248", "SBAS": "DF004", "QZSS": "DF428", "BEIDOU": "DF427", "NAVIC": "DF546"}

# per MSM level: bits per satellite, bits per cell
MSM_SAT_BITS = {1: 10, 2: 10, 3: 10, 4: 18, 5: 36, 6: 18, 7: 36}
MSM_CELL_BITS = {1: 15, 2: 27, 3: 42, 4: 48, 5: 63, 6: 65, 7: 80}
MSM_HEADER_BITS = 169

# satellite / cell data fields per MSM level, in transmission order (field, bits)
MSM_SAT_FIELDS = {
    1: [("DF398", 10)],
    2: [("DF398", 10)],
    3: [("DF398", 10)],
    4: [("DF397", 8), ("DF398", 10)],
    5: [("DF397", 8), ("EXT", 4), ("DF398", 10), ("DF399", 14)],
    6: [("DF397", 8), ("DF398", 10)],
    7: [("DF397", 8), ("EXT", 4), ("DF398", 10), ("DF399", 14)],
}
MSM_CELL_FIELDS = {
    1: [("DF400", 15)],
    2: [("DF401", 22), ("DF402", 4), ("DF420", 1)],
    3: [("DF400", 15), ("DF401", 22), ("DF402", 4), ("DF420", 1)],
    4: [("DF400", 15), ("DF401", 22), ("DF402", 4), ("DF420", 1), ("DF403", 6)],
    5: [("DF400", 15), ("DF401", 22), ("DF402", 4), ("DF420", 1), ("DF403", 6), ("DF404", 15)],
    6: [("DF405", 20), ("DF406", 24), ("DF407", 10), ("DF420", 1), ("DF408", 10)],
    7: [("DF405", 20), ("DF406", 24), ("DF407", 10), ("DF420", 1), ("DF408", 10), ("DF404", 15)],
}


def msm_ids():
    return [str(1070 + 10 * c + l) for c in range(7) for l in range(1, 8)]


def msm_cons(ident):
    return CONS[ident[:3]]


def msm_level(ident):
    return int(ident[3])
