"""M5 - tables pinned in the harness (independent of the repository's tables).

Provenance: RTCM 10403.3 tables 3.5-91 (GPS), 3.5-96 (GLONASS), 3.5-99 (Galileo),
3.5-102 (SBAS), 3.5-105 (QZSS), 3.5-108 (BeiDou), 3.5-108.3 (NavIC) for the MSM
signal-ID -> RINEX observation code mapping, as also transcribed in RTKLIB's
rtcm3.c msm_sig_* arrays; satellite-ID -> PRN conventions from the same standard
(SBAS 120.., QZSS 193..) and pyrtcm's README (three-digit labels); message lengths
from the message tables of RTCM 10403.3 and IGS SSR v1.00, cross-checked against
RTKLIB's decoders and the recorded frames in /repo/tests.
"""

# constellation prefix -> name used in the harness
CONS = {"107": "GPS", "108": "GLONASS", "109": "GALILEO", "110": "SBAS", "111": "QZSS", "112": "BEIDOU", "113": "NAVIC"}


def _codes(*pairs):
    return dict(pairs)


# signal ID (1..32) -> RINEX observation code
RINEX = {
    "GPS": _codes((2, "1C"), (3, "1P"), (4, "1W"), (8, "2C"), (9, "2P"), (10, "2W"), (15, "2S"), (16, "2L"), (17, "2X"), (22, "5I"), (23, "5Q"), (24, "5X"), (30, "1S"), (31, "1L"), (32, "1X")),
    "GLONASS": _codes((2, "1C"), (3, "1P"), (8, "2C"), (9, "2P")),
    "GALILEO": _codes((2, "1C"), (3, "1A"), (4, "1B"), (5, "1X"), (6, "1Z"), (8, "6C"), (9, "6A"), (10, "6B"), (11, "6X"), (12, "6Z"), (14, "7I"), (15, "7Q"), (16, "7X"), (18, "8I"), (19, "8Q"), (20, "8X"), (22, "5I"), (23, "5Q"), (24, "5X")),
    "SBAS": _codes((2, "1C"), (22, "5I"), (23, "5Q"), (24, "5X")),
    "QZSS": _codes((2, "1C"), (9, "6S"), (10, "6L"), (11, "6X"), (15, "2S"), (16, "2L"), (17, "2X"), (22, "5I"), (23, "5Q"), (24, "5X"), (30, "1S"), (31, "1L"), (32, "1X")),
    "BEIDOU": _codes((2, "2I"), (3, "2Q"), (4, "2X"), (8, "6I"), (9, "6Q"), (10, "6X"), (14, "7I"), (15, "7Q"), (16, "7X"), (22, "5D"), (23, "5P"), (24, "5X"), (25, "7D"), (30, "1D"), (31, "1P"), (32, "1X")),
    "NAVIC": _codes((22, "5A")),
}

NA = "N/A"  # default; checks use na_marker() which prefers the library's own constant


def na_marker():
    try:
        from pyrtcm.rtcmtypes_core import NA as lib_na

        return lib_na if isinstance(lib_na, str) and lib_na else NA
    except ImportError:
        return NA


def prn_label(cons, sat_id):
    """label of satellite ID 1..64 under the constellation's numbering; NA outside the defined range"""
    if cons in ("GPS", "BEIDOU"):
        return f"{sat_id:03d}" if 1 <= sat_id <= 63 else NA
    if cons == "GLONASS":
        return f"{sat_id:03d}" if 1 <= sat_id <= 24 else NA
    if cons == "GALILEO":
        if 1 <= sat_id <= 50:
            return f"{sat_id:03d}"
        return {51: "GIOVE-A", 52: "GIOVE-B"}.get(sat_id, NA)
    if cons == "SBAS":
        return f"{sat_id + 119:03d}" if 1 <= sat_id <= 39 else NA
    if cons == "QZSS":
        return f"{sat_id + 192:03d}" if 1 <= sat_id <= 10 else NA
    if cons == "NAVIC":
        return f"{sat_id:03d}" if 1 <= sat_id <= 14 else NA
    raise KeyError(cons)


# epoch field per constellation (RTCM 10403.3 MSM header tables)
EPOCH_FIELD = {"GPS": "DF004", "GLONASS": "DF034", "GALILEO": "DF248", "SBAS": "DF004", "QZSS": "DF428", "BEIDOU": "DF427", "NAVIC": "DF546"}

# per MSM level: bits per satellite, bits per cell
MSM_SAT_BITS = {1: 10, 2: 10, 3: 10, 4: 18, 5: 36, 6: 18, 7: 36}
MSM_CELL_BITS = {1: 15, 2: 27, 3: 42, 4: 48, 5: 63, 6: 65, 7: 80}
MSM_HEADER_BITS = 169

# satellite / cell data fields per MSM level, in transmission order (field, bits)
MSM_SAT_FIELDS = {
    1: [("DF398", 10)],
    2: [("DF398", 10)],
    3: [("DF398", 10)],
    4: [("DF397", 8), ("DF398", 10)],
    5: [("DF397", 8), ("EXT", 4), ("DF398", 10), ("DF399", 14)],
    6: [("DF397", 8), ("DF398", 10)],
    7: [("DF397", 8), ("EXT", 4), ("DF398", 10), ("DF399", 14)],
}
MSM_CELL_FIELDS = {
    1: [("DF400", 15)],
    2: [("DF401", 22), ("DF402", 4), ("DF420", 1)],
    3: [("DF400", 15), ("DF401", 22), ("DF402", 4), ("DF420", 1)],
    4: [("DF400", 15), ("DF401", 22), ("DF402", 4), ("DF420", 1), ("DF403", 6)],
    5: [("DF400", 15), ("DF401", 22), ("DF402", 4), ("DF420", 1), ("DF403", 6), ("DF404", 15)],
    6: [("DF405", 20), ("DF406", 24), ("DF407", 10), ("DF420", 1), ("DF408", 10)],
    7: [("DF405", 20), ("DF406", 24), ("DF407", 10), ("DF420", 1), ("DF408", 10), ("DF404", 15)],
}


def msm_ids():
    return [str(1070 + 10 * c + l) for c in range(7) for l in range(1, 8)]


def msm_cons(ident):
    return CONS[ident[:3]]


def msm_level(ident):
    return int(ident[3])


# ---------------------------------------------------------------------------
# roster of identities defined by RTCM 10403.3 (+ amendments) / IGS SSR v1 that pyrtcm implements
def roster():
    ids = [str(n) for n in list(range(1001, 1018)) + list(range(1019, 1028)) + list(range(1029, 1036)) + [1037, 1038, 1039, 1041, 1042, 1044, 1045, 1046] + list(range(1057, 1069)) + [1230] + list(range(1300, 1306))]
    ids += msm_ids()
    for base in (20, 40, 60, 80, 100, 120):  # GPS GLONASS Galileo QZSS BeiDou SBAS
        ids += [f"4076_{base + k:03d}" for k in range(1, 8)]
    ids.append("4076_201")
    return ids


# ---------------------------------------------------------------------------
# standard message lengths in bits as a function of the repeat counts (v = decoded values by attribute name)
def _n(v, name):
    return v.get(name, 0)


def _sum(v, prefix):
    """sum of all attributes named prefix_NN (one nesting level)"""
    return sum(val for k, val in v.items() if k.startswith(prefix + "_") and k[len(prefix) + 1 :].isdigit())


def _igs_nested(per_sat, per_bias):
    return lambda v: sum(per_sat + per_bias * v[f"IDF023_{i:02d}"] for i in range(1, v["IDF010"] + 1))


def _vtec(v):
    total = 83
    for i in range(1, v["IDF035"] + 2):
        N, M = v[f"IDF037_{i:02d}"] + 1, v[f"IDF038_{i:02d}"] + 1
        nc = (N + 1) * (N + 2) // 2 - ((N - M) * (N - M + 1)) // 2
        ns = nc - (N + 1)
        total += 16 + 16 * (nc + ns)
    return total


def _msm(level):
    return lambda v: MSM_HEADER_BITS + v["NSat"] * v["NSig"] + MSM_SAT_BITS[level] * v["NSat"] + MSM_CELL_BITS[level] * v["NCell"]


LENGTH = {
    "1001": lambda v: 64 + 58 * v["DF006"],
    "1002": lambda v: 64 + 74 * v["DF006"],
    "1003": lambda v: 64 + 101 * v["DF006"],
    "1004": lambda v: 64 + 125 * v["DF006"],
    "1005": lambda v: 152,
    "1006": lambda v: 168,
    "1007": lambda v: 40 + 8 * v["DF029"],
    "1008": lambda v: 48 + 8 * (v["DF029"] + v["DF032"]),
    "1009": lambda v: 61 + 64 * v["DF035"],
    "1010": lambda v: 61 + 79 * v["DF035"],
    "1011": lambda v: 61 + 107 * v["DF035"],
    "1012": lambda v: 61 + 130 * v["DF035"],
    "1013": lambda v: 70 + 29 * v["DF053"],
    "1014": lambda v: 117,
    "1015": lambda v: 76 + 28 * v["DF067"],
    "1016": lambda v: 76 + 36 * v["DF067"],
    "1017": lambda v: 76 + 53 * v["DF067"],
    "1019": lambda v: 488,
    "1020": lambda v: 360,
    "1021": lambda v: 412 + 8 * (v["DF143"] + v["DF145"]),
    "1022": lambda v: 517 + 8 * (v["DF143"] + v["DF145"]),
    "1023": lambda v: 578,
    "1024": lambda v: 590,
    "1025": lambda v: 196,
    "1026": lambda v: 234,
    "1027": lambda v: 258,
    "1029": lambda v: 72 + 8 * v["DF139"],
    "1030": lambda v: 56 + 49 * v["DF006"],
    "1031": lambda v: 53 + 49 * v["DF035"],
    "1032": lambda v: 156,
    "1033": lambda v: 72 + 8 * (v["DF029"] + v["DF032"] + v["DF227"] + v["DF229"] + v["DF231"]),
    "1034": lambda v: 49 + 66 * v["DF006"],
    "1035": lambda v: 46 + 66 * v["DF035"],
    "1037": lambda v: 73 + 28 * v["DF234"],
    "1038": lambda v: 73 + 36 * v["DF234"],
    "1039": lambda v: 73 + 53 * v["DF234"],
    "1041": lambda v: 482,
    "1042": lambda v: 511,
    "1044": lambda v: 485,
    "1045": lambda v: 496,
    "1046": lambda v: 504,
    "1057": lambda v: 68 + 135 * v["DF387"],
    "1058": lambda v: 67 + 76 * v["DF387"],
    "1059": lambda v: 67 + 11 * v["DF387"] + 19 * _sum(v, "DF379"),
    "1060": lambda v: 68 + 205 * v["DF387"],
    "1061": lambda v: 67 + 12 * v["DF387"],
    "1062": lambda v: 67 + 28 * v["DF387"],
    "1063": lambda v: 65 + 134 * v["DF387"],
    "1064": lambda v: 64 + 75 * v["DF387"],
    "1065": lambda v: 64 + 10 * v["DF387"] + 19 * _sum(v, "DF379"),
    "1066": lambda v: 65 + 204 * v["DF387"],
    "1067": lambda v: 64 + 11 * v["DF387"],
    "1068": lambda v: 64 + 27 * v["DF387"],
    "1230": lambda v: 32 + 16 * sum(v[f"DF422_{k}"] for k in (1, 2, 3, 4)),
    "1300": lambda v: 33 + 8 * v["DF562"],
    "1301": lambda v: 362 + 8 * (v["DF143"] + v["DF145"]),
    "1302": lambda v: 26 + 8 * v["DF565"] + 5 * v["DF568"] + 8 * _sum(v, "DF569"),
    "1303": lambda v: 56 + 49 * v["DF572"],
    "1304": lambda v: 56 + 49 * v["DF574"],
    "1305": lambda v: 56 + 47 * v["DF576"],
    "4076_201": _vtec,
}
for _c in range(7):
    for _l in range(1, 8):
        LENGTH[str(1070 + 10 * _c + _l)] = _msm(_l)
for _base in (20, 40, 60, 80, 100, 120):
    LENGTH[f"4076_{_base + 1:03d}"] = lambda v: 79 + 135 * v["IDF010"]
    LENGTH[f"4076_{_base + 2:03d}"] = lambda v: 78 + 76 * v["IDF010"]
    LENGTH[f"4076_{_base + 3:03d}"] = lambda v: 79 + 205 * v["IDF010"]
    LENGTH[f"4076_{_base + 4:03d}"] = lambda v: 78 + 28 * v["IDF010"]
    LENGTH[f"4076_{_base + 5:03d}"] = lambda v: 78 + 11 * v["IDF010"] + 19 * _sum(v, "IDF023")
    LENGTH[f"4076_{_base + 6:03d}"] = lambda v: 80 + 28 * v["IDF010"] + 32 * _sum(v, "IDF023")
    LENGTH[f"4076_{_base + 7:03d}"] = lambda v: 78 + 12 * v["IDF010"]

# ---------------------------------------------------------------------------
# sibling relations
# composite messages: combined block == shared prefix ++ rest of block A ++ rest of block B
#   (combined, A, B, prefix bits, prefix fields, A block bits, B block bits)
#   SSR: combined orbit+clock = orbit block ++ clock block without the repeated satellite ID
#   network RTK: combined geometric+ionospheric = geometric block (with IODE / IOD) ++ ionospheric difference,
#   sharing satellite ID, ambiguity status flag and non-sync count (RTCM 10403.3 tables 3.5-32..34, 3.5-69..71)
SSR_TRIPLES = [("1060", "1057", "1058", 6, 1, 135, 76), ("1066", "1063", "1064", 5, 1, 134, 75)]
for _base in (20, 40, 60, 80, 100, 120):
    SSR_TRIPLES.append((f"4076_{_base + 3:03d}", f"4076_{_base + 1:03d}", f"4076_{_base + 2:03d}", 6, 1, 135, 76))
SSR_TRIPLES.append(("1017", "1016", "1015", 11, 3, 36, 28))
SSR_TRIPLES.append(("1039", "1038", "1037", 11, 3, 36, 28))

# parallel messages: the satellite / signal blocks have the same layout behind a satellite ID of possibly different
# width (GPS 6 bits / GLONASS 5 bits); identical block bits must decode to identical values, position by position
#   (message, satellite-ID bits, block bits incl. ID)   - groups of parallel messages
PARALLEL = [
    [("1057", 6, 135), ("1063", 5, 134)] + [(f"4076_{b + 1:03d}", 6, 135) for b in (20, 40, 60, 80, 100, 120)],
    [("1058", 6, 76), ("1064", 5, 75)] + [(f"4076_{b + 2:03d}", 6, 76) for b in (20, 40, 60, 80, 100, 120)],
    [("1060", 6, 205), ("1066", 5, 204)] + [(f"4076_{b + 3:03d}", 6, 205) for b in (20, 40, 60, 80, 100, 120)],
    [("1062", 6, 28), ("1068", 5, 27)] + [(f"4076_{b + 4:03d}", 6, 28) for b in (20, 40, 60, 80, 100, 120)],
    [("1061", 6, 12), ("1067", 5, 11)] + [(f"4076_{b + 7:03d}", 6, 12) for b in (20, 40, 60, 80, 100, 120)],
    [("1015", 6, 28), ("1037", 6, 28)],
    [("1016", 6, 36), ("1038", 6, 36)],
    [("1017", 6, 53), ("1039", 6, 53)],
    [("1030", 6, 49), ("1031", 6, 49), ("1303", 6, 49), ("1304", 6, 49)],
    [("1034", 6, 66), ("1035", 6, 66)],
]

# extended observables contain the basic ones: per-satellite field widths, extension fields in parentheses (negative)
EXTENDED = {
    ("1002", "1001"): [6, 1, 24, 20, 7, -8, -8],
    ("1004", "1003"): [6, 1, 24, 20, 7, -8, -8, 2, 14, 20, 7, -8],
    ("1010", "1009"): [6, 1, 5, 25, 20, 7, -7, -8],
    ("1012", "1011"): [6, 1, 5, 25, 20, 7, -7, -8, 2, 14, 20, 7, -8],
}
