"""C03 - every data field decodes to the value its bits encode, for all message types."""

from hypothesis import strategies as st

from pv import gen, model
from pv.core import Fail, Res, Sub
from pv.model import Derived

PROPERTY = "C03"
RULE = (
    "for EVERY defined identity on every run (shards split the identity list): payloads built by the independent "
    "definition interpreter from per-field raw draws biased to 0 / all-ones / sign-bit / sign-bit+1, counters up to what "
    "fits 1023 bytes, MSM masks, 1230 flags, 4076_201 degree/order; the parser's public attributes must equal the "
    "interpreter's (names, order, values). Two metamorphic relations: replacing one plain field's bits changes that "
    "attribute only; pad bits / trailing bytes change nothing. Non-trivial: the message has a group iteration, an "
    "optional group, a mask-dependent width or a negative signed value; distinct by (identity, payload)."
)
ASSUMPTIONS = [
    "the interpreter reads RTCM_DATA_FIELDS / RTCM_PAYLOADS_GET* as data; widths/resolutions themselves are C10's business",
    "STR fields: code units joined into one attribute named by the bare key, NUL units elided (DESIGN 5.1)",
    "MSM generation keeps NSat x NSig <= 64 as the standard requires",
]


def pub(m):
    return [(k, v) for k, v in m.__dict__.items() if not k.startswith("_")]


def parse(payload):
    from pyrtcm import RTCMMessage

    return RTCMMessage(payload=payload)


def _counter_keys():
    keys = {"DF002", "IDF002", "DF394", "DF395", "DF396", "IDF035", "IDF037", "IDF038"}

    def rec(d):
        if not isinstance(d, dict):
            return
        for v in d.values():
            if isinstance(v, tuple) and len(v) == 2:
                cnt, sub = v
                if isinstance(cnt, str):
                    keys.add(model.counter_base(cnt))
                elif isinstance(cnt, tuple) and cnt:
                    keys.add(cnt[0])
                rec(sub)

    for i in model.identities():
        rec(model.definition(i))
    return keys


_CK = None


def counter_keys():
    global _CK
    if _CK is None:
        _CK = _counter_keys()
    return _CK


def compare(payload, w, m, what="decode"):
    exp = w.expected()
    got = pub(m)
    en = [k for k, _ in exp]
    gn = [k for k, _ in got]
    if en != gn:
        missing = [k for k in en if k not in set(gn)]
        extra = [k for k in gn if k not in set(en)]
        if missing or extra or len(gn) != len(set(gn)):
            raise Fail(f"{what}-attribute-names", f"{w.ident}: missing {missing[:6]} extra {extra[:6]} payload {payload.hex()[:120]}")
        # same names in another order: the statement does not fix an order, so this is not a violation
    gd = dict(got)
    for k, ev in exp:
        gv = gd[k]
        if isinstance(ev, Derived):
            continue
        if ev != gv or isinstance(ev, str) != isinstance(gv, str):
            typ = next((it.typ for it in w.items if it.attr == k or it.key == k), "?")
            raise Fail(f"{what}-value-{typ}", f"{w.ident}.{k}: expected {ev!r} got {gv!r}; payload {payload.hex()[:160]}")


def features(w):
    cls = []
    s = w.stats
    if s["iters"]:
        cls.append("group-iteration")
    if s["nested"]:
        cls.append("nested-group")
    if s["optional"]:
        cls.append("optional-group")
    if s["maxidx"] >= 10:
        cls.append("index>=10")
    if s["maxidx"] >= 100:
        cls.append("index>=100")
    neg = any(it.typ in ("INT", "SNT") and it.width and it.raw >> (it.width - 1) for it in w.items)
    if neg:
        cls.append("negative")
    if "NSat" in w.vals:
        cls.append("msm")
    if any(it.typ == "STR" for it in w.items):
        cls.append("str")
    if w.nbits > 8 * 1000:
        cls.append("near-1023-bytes")
    nt = bool(s["iters"] or s["optional"] or neg or "NSat" in w.vals)
    return nt, cls


# ------------------------------------------------------------------ (1) decode
def o_decode(case):
    if case.get("checkdef"):
        try:
            model.Walk(case["ident"], lambda k, wd, w, idx: 0).run()
        except model.BadDefinition as e:
            raise Fail("definition-malformed", f"{case['ident']}: {e}") from e
        return Res(False, ["definition-ok"])
    payload = bytes.fromhex(case["payload"])
    ident, w = model.decode(payload)
    if w is None or ident != case["ident"]:
        raise AssertionError(f"harness: generated payload is {ident}, wanted {case['ident']}")
    m = parse(payload)
    if m.identity != ident:
        raise Fail("identity", f"identity {m.identity!r}, expected {ident!r}")
    compare(payload, w, m)
    nt, cls = features(w)
    return Res(nontrivial=nt, classes=cls + [f"id:{ident}"] if False else cls)


def ident_strategy(ident, profile="mixed", tail=False):
    try:
        model.Walk(ident, lambda k, wd, w, idx: 0).run()
    except model.BadDefinition:
        return st.just({"ident": ident, "checkdef": True})
    return gen.messages(ident, profile, tail=tail)


def plan_decode(tier, shard, nshards):
    ids = gen.all_idents()[shard::nshards]
    n = 40 if tier == "quick" else 600
    # identities with text fields or nested groups have more shapes (alignment of the text, empty inner groups ...)
    rich = {"1029", "1300", "1301", "1302", "1059", "1065", "4076_201"} | {f"4076_{c:02d}{k}" for c in range(2, 13, 2) for k in (5, 6)}
    out = [(i, ident_strategy(i), n * 4 if i in rich else n) for i in ids]
    # every counter at the largest value that fits 1023 bytes, for every identity, on every run
    out += [(i + "/max", ident_strategy(i, "max"), 2 if tier == "quick" else 20) for i in ids]
    if "1029" in ids:
        out.append(("1029/unicode", unicode_1029(), 30 if tier == "quick" else 600))
    if "4076_201" in ids:
        # all 256 combinations of the degree and order fields, the order above the degree too (C03 quantifies over all field values)
        out.append(("4076_201/anyorder", ident_strategy("4076_201", "anyorder"), 120 if tier == "quick" else 2000))
    return out


# ------------------------------------------------------------------ (2) one plain field changes one attribute
def o_field(case):
    payload = bytes.fromhex(case["payload"])
    ident, w = model.decode(payload)
    plain = [it for it in w.items if it.width and it.key not in counter_keys()]
    if not plain:
        return Res(False, ["no-plain-field"])
    it = plain[case["k"] % len(plain)]
    newraw = case["newraw"] % (1 << it.width)
    p2 = model.replace_field(payload, it, newraw)
    a = dict(pub(parse(payload)))
    m2 = parse(p2)
    b = dict(pub(m2))
    if list(a) != list(b):
        raise Fail("field-change-names", f"{ident}: replacing {it.attr} changed the attribute set")
    target = it.key if it.typ == "STR" else it.attr
    changed = [k for k in a if a[k] != b[k]]
    other = [k for k in changed if k != target]
    if other:
        raise Fail("field-change-leaks", f"{ident}: replacing bits of {it.attr} ({it.raw}->{newraw}) also changed {other[:5]}; payload {payload.hex()[:120]}")
    _, w2 = model.decode(p2)
    want = w2.vals[target]
    if b[target] != want:
        raise Fail(f"field-change-value-{it.typ}", f"{ident}.{target}: raw {newraw} expected {want!r} got {b[target]!r}")
    return Res(nontrivial=newraw != it.raw, classes=[f"typ:{it.typ}", "nested" if len(it.idx) > 1 else ("grouped" if it.idx else "flat")])


@st.composite
def s_field(draw, ids):
    ident = draw(st.sampled_from(ids))
    c = draw(gen.messages(ident, "small"))
    c["k"] = draw(st.integers(0, 4000))
    c["newraw"] = draw(st.one_of(st.integers(0, 2**40), st.just(0), st.just(2**41 - 1), st.sampled_from([2**k for k in range(40)])))
    return c


def plan_field(tier, shard, nshards):
    ids = gen.decodable_idents()[shard::nshards]
    n = 120 if tier == "quick" else 3000
    return [("", s_field(ids), n)] if ids else []


# ------------------------------------------------------------------ (3) bytes after the last field change nothing
def o_tail(case):
    payload = bytes.fromhex(case["payload"])
    ident, w = model.decode(payload)
    full = w.payload(0)  # fields only, zero padding
    alt = w.payload(case["pad"], bytes.fromhex(case["tail"]))
    if len(alt) > 1023:
        alt = alt[:1023]
    a = pub(parse(full))
    b = pub(parse(alt))
    if a != b:
        diff = [k for (k, v), (_, v2) in zip(a, b) if v != v2][:5]
        raise Fail("trailing-bytes-change-result", f"{ident}: pad/tail changed {diff or 'attribute list'}; payload {alt.hex()[:120]}")
    return Res(nontrivial=alt != full, classes=["tail" if len(alt) > len(full) else "padbits-only"])


@st.composite
def s_tail(draw, ids):
    ident = draw(st.sampled_from(ids))
    c = draw(gen.messages(ident, "small"))
    c["pad"] = draw(st.integers(0, 255))
    c["tail"] = draw(st.one_of(st.just(b""), st.binary(min_size=1, max_size=8), st.sampled_from([b"\xff", b"\x00", b"\xff" * 8]))).hex()
    return c


def plan_tail(tier, shard, nshards):
    ids = gen.decodable_idents()[shard::nshards]
    n = 60 if tier == "quick" else 1500
    return [("", s_tail(ids), n)] if ids else []


# ------------------------------------------------------------------ (4) the same decode through a stream reader, with CRC twins
def o_reader(case):
    """two different valid frames of one type and length with identical CRC trailers, read by ONE reader: each parsed
    message must carry the values its own bits encode"""
    import io

    from pyrtcm import RTCMReader

    from pv import framing, streams

    p = bytes.fromhex(case["payload"])
    f = framing.build_frame(p)
    t = streams.crc_twin(f, case["off"])
    frames_ = [f]
    if t is not None and framing.ref_identity(t[3:-3]) == case["ident"]:
        try:
            model.decode(t[3:-3])
            frames_ = [f, t, f] if case["order"] else [t, f, t]
        except model.Overrun:
            pass
    got = list(RTCMReader(io.BytesIO(b"".join(frames_)), quitonerror=2))
    if len(got) != len(frames_):
        raise Fail("reader-frame-count", f"{len(got)} results for {len(frames_)} frames")
    for k, ((raw, parsed), fr) in enumerate(zip(got, frames_)):
        if raw != fr:
            raise Fail("reader-raw", f"frame {k}: raw bytes differ")
        _, w = model.decode(fr[3:-3])
        compare(fr[3:-3], w, parsed, "reader")
    return Res(nontrivial=len(frames_) > 1, classes=["with-crc-twin" if len(frames_) > 1 else "single"], evals=len(frames_))


@st.composite
def s_reader(draw, ids):
    ident = draw(st.sampled_from(ids))
    c = draw(gen.messages(ident, "small"))
    c["off"] = draw(st.integers(0, 4000))
    c["order"] = draw(st.booleans())
    return c


def plan_reader(tier, shard, nshards):
    ids = gen.decodable_idents()[shard::nshards]
    return [("", s_reader(ids), 60 if tier == "quick" else 1500)] if ids else []


@st.composite
def unicode_1029(draw):
    """a semantically consistent 1029: DF138 = characters, DF139 = UTF-8 code units, DF140 = the code units"""
    text = draw(st.text(alphabet=st.one_of(st.characters(min_codepoint=32, max_codepoint=126), st.sampled_from("äöüßéèñøåçλπЖяあ中€😀")), min_size=1, max_size=40))
    b = text.encode("utf-8")[:255]
    while True:
        try:
            nchar = len(b.decode("utf-8"))
            break
        except UnicodeDecodeError:
            b = b[:-1]
    fixed = {"DF138": nchar & 0x7F, "DF139": len(b)}
    for i, u in enumerate(b, 1):
        fixed[f"DF140_{i:02d}"] = u
    return draw(gen.messages("1029", "small", fixed=fixed))


# ------------------------------------------------------------------ (5) the same decode in an optimised interpreter
def o_optimized(case):
    """python -O removes assert statements: decoding must not depend on them"""
    from pv import child

    reqs = [{"payload": p, "lm": 1} for p in case["batch"]]
    res = child.decode_in_child(reqs, optimize=True)
    for hx, r in zip(case["batch"], res):
        payload = bytes.fromhex(hx)
        ident, w = model.decode(payload)
        if not r["ok"]:
            raise Fail("python-O-rejects-valid-message", f"{ident}: {r['exc']} under python -O; payload {hx[:100]}")

        class _M:
            pass

        m = _M()
        m.__dict__.update({k: v for k, v in r["attrs"]})
        compare(payload, w, m, "python-O")
    return Res(nontrivial=True, classes=["python-O"], evals=len(reqs))


@st.composite
def s_optimized(draw, ids):
    return {"batch": [draw(gen.messages(draw(st.sampled_from(ids)), "small"))["payload"] for _ in range(10)]}


def plan_optimized(tier, shard, nshards):
    ids = gen.decodable_idents()[shard::nshards]
    return [("", s_optimized(ids), 2 if tier == "quick" else 30)] if ids else []


def _short(c):
    if "batch" in c:
        return {"batch": [b[:60] for b in c["batch"][:3]], "n": len(c["batch"])}
    c = dict(c)
    if len(c.get("payload", "")) > 160:
        c["payload_len"] = len(c["payload"]) // 2
        c["payload"] = c["payload"][:160] + "..."
    return c


SUBS = [
    Sub("decode_all_identities", o_decode, plan=plan_decode, rule="all identities x generated messages; expected list from the independent interpreter", need={"group-iteration": 1, "negative": 1, "msm": 1, "optional-group": 1, "nested-group": 1, "index>=10": 1}, sample=_short),
    Sub("one_field_change", o_field, plan=plan_field, rule="new raw value differs from the old one", sample=_short),
    Sub("reader_path_with_crc_twins", o_reader, plan=plan_reader, rule="a CRC twin (same type, length and CRC trailer, different payload) could be built", need={"with-crc-twin": 1}, sample=_short),
    Sub("decode_under_python_O", o_optimized, plan=plan_optimized, rule="every case: 10 messages decoded in a python -O child and compared with the interpreter", sample=_short),
    Sub("trailing_bytes", o_tail, plan=plan_tail, rule="padding bits or tail differ from the canonical payload", sample=_short),
]
