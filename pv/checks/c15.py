"""C15 - identity is the transmitted message number; unknown types are preserved."""

import hashlib

from hypothesis import strategies as st

from pv import framing, gen, model
from pv.core import Fail, Res, Sub, digest
from pv.checks.c04 import lib_errors

PROPERTY = "C15"
RULE = (
    "COMPLETE enumeration of the header space: all 4096 message numbers x all 256 values of the sub-type byte position "
    "(bits 15..22) x a deterministic tail per header (thorough: several tails and all 8 version values); arithmetic reference "
    "for the identity; numbers without a definition must yield a stub that keeps the payload and serialises to the canonical frame; "
    "defined numbers with an arbitrary tail may only succeed (then DF002 == number) or raise a library error; ismsm must be True "
    "for the pinned roster 107x..113x x 1..7 and False for every number outside 1070..1229. Plus model-built full payloads of every "
    "implemented identity. Non-trivial: tail >= 1 byte or defined identity; every header distinct."
)
ASSUMPTIONS = [
    "numbers inside 1070..1229 that are merely reserved may or may not be reported MSM (DESIGN 5.5)",
    "pinned MSM roster: 1071-1077, 1081-1087, 1091-1097, 1101-1107, 1111-1117, 1121-1127, 1131-1137",
]

MSM_ROSTER = {1070 + 10 * c + l for c in range(7) for l in range(1, 8)}


def check_one(p, evid):
    from pyrtcm import RTCMMessage, RTCMReader

    ident = framing.ref_identity(p)
    n = framing.msgnum(p)
    defined = model.definition(ident) is not None
    if defined and 1070 <= n <= 1229 and n not in MSM_ROSTER:
        # 1070, 1078-1080, 1088-1090 ... 1128-1130 and 1140-1229 are reserved by RTCM 10403.3: no payload definition
        raise Fail("reserved-msm-number-has-a-definition", f"{ident} is a reserved number of the MSM block but the tables define a payload for it")
    try:
        m = RTCMMessage(payload=p)
    except lib_errors() as e:
        if not defined:
            raise Fail("unknown-type-raised", f"number {n} ({ident}) has no definition but the constructor raised {type(e).__name__}: {e}; payload {p.hex()[:40]}") from e
        return "defined-rejected"
    if m.identity != ident:
        raise Fail("identity-wrong", f"payload {p[:3].hex()}.. carries {ident!r}, identity is {m.identity!r}")
    if not isinstance(m.identity, str):
        raise Fail("identity-type", type(m.identity).__name__)
    if m.payload != p:
        raise Fail("payload-not-preserved", f"{ident}")
    if defined:
        if getattr(m, "DF002", None) != n:
            raise Fail("DF002-mismatch", f"{ident}: DF002 = {getattr(m, 'DF002', None)!r}, number carried {n}")
        if ident.startswith("4076_") and getattr(m, "IDF002", None) != int(ident[5:]):
            raise Fail("IDF002-mismatch", f"{ident}: IDF002 = {getattr(m, 'IDF002', None)!r}")
    else:
        f = m.serialize()
        if f != framing.build_frame(p):
            raise Fail("stub-serialize", f"{ident}: stub does not serialise to the canonical frame")
        m2 = RTCMReader.parse(f)
        if m2.payload != p or m2.identity != ident:
            raise Fail("stub-roundtrip", f"{ident}")
    msm = m.ismsm
    if n in MSM_ROSTER and ident == str(n) and msm is not True:
        raise Fail("ismsm-false-for-msm", f"{ident}: ismsm = {msm!r}")
    if not 1070 <= n <= 1229 and msm:
        raise Fail("ismsm-true-outside-block", f"{ident}: ismsm = {msm!r}")
    return "defined-ok" if defined else "stub"


def tail_for(n, sub, k, ln):
    if ln == 0:
        return b""
    return hashlib.blake2b(f"{n}|{sub}|{k}".encode(), digest_size=min(64, ln)).digest()[:ln]


def o_headers(case):
    """one message number x all 256 sub-type byte values (x versions x tails)"""
    n = case["n"]
    evals = 0
    cls = set()
    cnt = 0
    for sub in range(256):
        for ver in case["vers"]:
            for k, ln in enumerate(case["tails"]):
                # bits: 12 number | 3 version | 8 sub-type | 1 spare
                head = ((((n << 3) | ver) << 8) | sub) << 1 | (k & 1)
                p = head.to_bytes(3, "big") + tail_for(n, sub, k, ln)
                r = check_one(p, None)
                evals += 1
                cls.add(r)
                if ln or r != "stub":
                    cnt += 1
    # two-byte payloads (no sub-type byte): identity must still be the number, except 4076 which needs the third byte
    if n != 4076:
        for low in (0, 0xF):
            check_one(bytes([n >> 4, (n & 0xF) << 4 | low]), None)
            evals += 1
        if n % 16 == case["vers"][0] % 16 or n in (0, 1, 4095) or 1070 <= n <= 1229 and n % 10 in (0, 8, 9):
            # the longest payloads a frame can carry (1017 .. 1023 bytes) for undefined numbers: still a stub
            for ln in (1017, 1018, 1020, 1022, 1023):
                p = bytes([n >> 4, (n & 0xF) << 4]) + tail_for(n, ln, 7, 64) * 16
                if model.definition(str(n)) is None:
                    check_one(p[:ln], None)
                    evals += 1
            cls.add("longest-payloads")
    if n >> 4 == 0xD3:
        # payloads that look like a transport frame themselves (first byte 0xD3, then a length that matches): the
        # identity is still the number in the first 12 bits
        for ln in range(0, 24):
            inner = tail_for(n, ln, 9, ln)
            for p in (bytes([0xD3, 0, ln]) + inner + tail_for(n, ln, 8, 3), framing.build_frame(inner)):
                if framing.msgnum(p) == n:  # 0xD3 0x0. = 3376 only
                    check_one(p, None)
                    evals += 1
        cls.add("frame-shaped-payload")
    cls.add("msm-roster" if n in MSM_ROSTER else ("msm-block-other" if 1070 <= n <= 1229 else "outside-msm-block"))
    if n == 4076:
        cls.add("4076")
    return Res(nontrivial=True, classes=sorted(cls), evals=evals, count=cnt)


def e_headers(tier, shard, nshards):
    vers = [0, 7] if tier == "quick" else list(range(8))
    tails = [0, 5] if tier == "quick" else [0, 1, 7, 40]
    for n in range(shard, 4096, nshards):
        if n == 4076:
            # every sub-type with every payload length from 3 to 14 bytes (and the tier's longer ones): the header
            # fields of the IGS family end inside that range, stubs must not care
            yield {"n": n, "vers": vers, "tails": sorted(set(tails) | set(range(0, 12)))}
        elif tier == "quick":
            yield {"n": n, "vers": [n % 8], "tails": [n % 3]}
        else:
            yield {"n": n, "vers": vers, "tails": tails}


def o_full(case):
    p = bytes.fromhex(case["payload"])
    r = check_one(p, None)
    if r != "defined-ok":
        raise Fail("valid-message-rejected", f"{case['ident']}: model-built payload was rejected ({r})")
    return Res(nontrivial=True, classes=["msm" if framing.msgnum(p) in MSM_ROSTER else "other"])


def plan_full(tier, shard, nshards):
    ids = gen.all_idents_safe()[shard::nshards]
    n = 3 if tier == "quick" else 40
    return [(i, gen.messages(i, "small", tail=True), n) for i in ids]


def o_reader(case):
    """every message number without a definition, read by a stream reader right after a CRC-damaged frame (and under
    application diagnostics): the frame must come back as a stub, never be lost or raise"""
    import io

    from pyrtcm import RTCMReader

    from pv.core import diagnostics

    good = []
    stream = bytearray()
    bad = bytearray(framing.build_frame(b"\xfe\x80\x01\x02"))
    bad[-1] ^= 0x01
    for n in case["numbers"]:
        if model.definition(str(n)) is not None or n == 4076:
            continue
        f = framing.build_frame(bytes([n >> 4, (n & 0xF) << 4]) + tail_for(n, 0, 1, 1 + n % 5))
        good.append((n, f))
        # (for every other number the damaged frame comes twice in a row: a rejected frame and its immediate repeat)
        stream += bytes(bad) * (1 + n % 2) + f
        # the bare number (a two-byte payload, the shortest that carries an identity) and a frame whose checksum
        # trailer reads CR LF (the three payload bytes in front of it are solved for)
        f2 = framing.build_frame(bytes([n >> 4, (n & 0xF) << 4 | (n % 16)]))
        f3 = framing.frame_with_trailer(bytes([n >> 4, (n & 0xF) << 4]), bytes([n % 256, 0x0D, 0x0A]))
        good += [(n, f2), (n, f3)]
        # a frame with a one-byte payload (rejected: too short to carry a number) right in front: whatever its checksum
        # bytes look like, the frames behind it are not touched
        stream += framing.build_frame(bytes([n % 256])) * (1 + (n // 2) % 2) + f2 + f3
    with diagnostics(bool(case.get("diag"))):
        try:
            got = list(RTCMReader(io.BytesIO(bytes(stream)), quitonerror=case["qoe"]))
        except Exception as e:  # pylint: disable=broad-except
            raise Fail("reader-raised-on-unknown-number", f"quitonerror={case['qoe']} diagnostics={bool(case.get('diag'))}: {type(e).__name__}: {e}") from e
    if len(got) != len(good):
        lost = [n for (n, f) in good if f not in [r for r, _ in got]]
        raise Fail("unknown-number-lost-by-reader", f"{len(got)} of {len(good)} frames with undefined numbers returned after a damaged frame; first lost: {lost[:5]}")
    for (n, f), (raw, parsed) in zip(good, got):
        if raw != f or parsed is None or parsed.identity != str(n) or parsed.payload != f[3:-3]:
            raise Fail("unknown-number-stub-wrong", f"number {n}: raw / identity / payload of the stub differ")
    return Res(nontrivial=True, classes=["diagnostics-on" if case.get("diag") else "diagnostics-off"], evals=len(good), count=len(good))


def e_reader(tier, shard, nshards):
    block = 64
    for k, start in enumerate(range(0, 4096, block)):
        if k % nshards != shard:
            continue
        yield {"numbers": list(range(start, start + block)), "qoe": k % 2, "diag": bool((k // 2) % 2)}


SUBS = [
    Sub(
        "header_space",
        o_headers,
        enum=e_headers,
        exhaustive=True,
        rule="all 4096 numbers x all 256 sub-type byte values (complete); tails deterministic per header",
        need={"msm-roster": 49, "4076": 1, "stub": 1, "defined-ok": 1, "defined-rejected": 1},
    ),
    Sub("undefined_numbers_through_reader", o_reader, enum=e_reader, exhaustive=True, rule="every undefined message number, each right after a CRC-damaged frame, through RTCMReader (complete)", need={"diagnostics-on": 1, "diagnostics-off": 1}, sample=lambda c: {"numbers": f"{c['numbers'][0]}..{c['numbers'][-1]}", "qoe": c["qoe"], "diag": c["diag"]}),
    Sub("implemented_full_payloads", o_full, plan=plan_full, rule="every implemented identity with a model-built body", need={"msm": 1}),
    Sub(
        "cold_start_concurrent_first_use",
        __import__("pv.checks.c13", fromlist=["o_cold"]).o_cold,
        strategy=__import__("pv.checks.c13", fromlist=["s_cold"]).s_cold,
        examples=(1, 8),
        rule="fresh interpreters in which several threads construct messages of implemented identities at once (identity dispatch built lazily must not depend on who comes first)",
        sample=lambda c: {"payloads": [p[:40] for p in c["payloads"]], "threads": c["threads"], "children": c["children"]},
    ),
]
