"""C02 - no valid frame is lost, duplicated or reordered on well-formed mixed input."""

import io

from hypothesis import strategies as st

from pv import streams
from pv.core import Fail, Res, Sub
from pv.doubles import ScriptedSocket

PROPERTY = "C02"
RULE = (
    "sequences (1-14 items) of valid RTCM3 frames (every defined identity with model-built body, unknown types, "
    "1023-byte payloads, 0/1-byte filler frames), complete NMEA sentences, complete UBX frames (payload biased to sync "
    "bytes) and inert noise, over BytesIO / BufferedReader / scripted socket with generated segmentation and bufsize; "
    "oracle = the generator's own list of emitted frames: must-frames (payload carries a message number) must all be "
    "returned, everything returned must be an emitted frame, order and bytes exact, no repeats, then StopIteration. "
    "Non-trivial: >= 2 must-frames with >= 1 foreign or filler item before or between them."
)
ASSUMPTIONS = [
    "whether a 0/1-byte filler frame is itself returned is left open (must <= returned <= emitted), DESIGN 5.2",
    "quitonerror=2 is only used on sequences without filler frames",
]


def make_stream(case, data):
    kind = case["stream"]
    pre = bytes.fromhex(case.get("pre") or "")
    if kind == "pipe":
        from pv.doubles import pipe_like

        return pipe_like(data, case.get("bufsize", 64)), None
    if kind == "bytesio":
        # `pre`: the application consumed a file header (or an earlier reader part of the stream) before this reader
        # got the stream: the reader starts where the stream stands
        st_ = io.BytesIO(pre + data)
        st_.seek(len(pre))
        return st_, None
    if kind == "buffered":
        st_ = io.BufferedReader(io.BytesIO(pre + data), buffer_size=case["bufsize"])
        if pre:
            st_.read(len(pre))
        return st_, None
    gaps = case.get("gaps") or []
    bounds = []
    off = 0
    for i in case["items"]:
        off += len(i["b"]) // 2
        bounds.append(off)
    cuts = sorted(set(case["cuts"]) | (set(bounds[:-1]) if any(gaps) else set()))
    segs = streams.split(data, cuts)
    events = []
    pos = 0
    nb = 0
    for sg in segs:
        events.append(sg)
        pos += len(sg)
        if gaps and pos in bounds[:-1]:
            # a gap in delivery exactly between two items: the application polls again, later data must still arrive
            # (a gap INSIDE a frame makes the reader, not the wrapper, drop that frame - outside this property)
            if gaps[nb % len(gaps)]:
                events.append("timeout")
            nb += 1
    sock = ScriptedSocket(events + ["close"])
    sock.budget = 4 * len(data) + 4 * len(events) + 64
    return sock, sock


def o_seq(case):
    from pyrtcm import RTCMReader

    items = case["items"]
    data = streams.join(items)
    emitted = [(bytes.fromhex(i["b"]), i["k"] == "frame") for i in items if i["k"] in ("frame", "filler")]
    stream, sock = make_stream(case, data)
    try:
        rdr = RTCMReader(stream, quitonerror=case["qoe"], parsed=case["parsed"], bufsize=case.get("bufsize", 4096))
        got = []
        raised = False
        it = iter(rdr)
        cap = len(emitted) + 4
        polls = 0
        second = False
        while True:
            try:
                raw, parsed = next(it)
            except StopIteration:
                # end of iteration; over a socket with gaps in delivery the application polls again until the peer closes
                if sock is not None and not sock.closed_by_peer and polls < 4 * len(case.get("cuts", [])) + 16:
                    polls += 1
                    it = iter(rdr)
                    continue
                if not second:
                    # a second for-loop over the same, exhausted reader: every frame was returned once already
                    second = True
                    it = iter(rdr)
                    continue
                break
            except Exception as e:  # pylint: disable=broad-except
                from pv.checks.c04 import lib_errors

                # raise mode: a filler frame (no message number) is reported; the SAME iterator must go on afterwards
                if case["qoe"] == 2 and isinstance(e, lib_errors()) and any(i["k"] == "filler" for i in items):
                    raised = True
                    continue
                raise
            got.append((raw, parsed))
            if len(got) > cap:
                raise Fail("too-many-results", f"{len(got)} results for {len(emitted)} emitted frames")
    finally:
        if sock is not None:
            sock.close()
    # returned must be an order-preserving sub-sequence of emitted, without repeats
    j = 0
    matched = [False] * len(emitted)
    for n, (raw, parsed) in enumerate(got):
        if not isinstance(raw, (bytes, bytearray)):
            raise Fail("raw-not-bytes", f"result {n}: raw is {type(raw).__name__}")
        raw = bytes(raw)
        while j < len(emitted) and emitted[j][0] != raw:
            j += 1
        if j == len(emitted):
            raise Fail("returned-not-emitted-in-order", f"result {n} ({raw.hex()[:40]}.. len {len(raw)}) is not the next emitted frame (lost order, duplicate, or bytes differ)")
        matched[j] = True
        j += 1
        if case["parsed"]:
            if parsed is None or parsed.payload != raw[3:-3]:
                raise Fail("parsed-mismatch", f"result {n}: parsed object missing or payload differs")
        elif parsed is not None:
            raise Fail("parsed-not-none", f"result {n}: parsed=False but an object was returned")
    lost = [k for k, (f, must) in enumerate(emitted) if must and not matched[k]]
    if lost:
        k = lost[0]
        raise Fail("frame-lost", f"emitted frame #{k} of {len(emitted)} (len {len(emitted[k][0])}, {emitted[k][0].hex()[:30]}..) was never returned; returned {len(got)}")
    # classes
    cls = [case["stream"], f"qoe{case['qoe']}"]
    kinds = [i["k"] for i in items]
    nmust = sum(1 for _, m in emitted if m)
    if "filler" in kinds:
        cls.append("has-filler")
        if any(i["k"] == "filler" and len(i["b"]) == 12 for i in items):
            cls.append("zero-length-frame")
    if any(i.get("big") for i in items):
        cls.append("has-1023-frame")
    if any(i["k"] == "ubx" and any(x in bytes.fromhex(i["b"])[6:] for x in streams.SYNC) for i in items):
        cls.append("ubx-with-sync-bytes")
    if "nmea" in kinds:
        cls.append("has-nmea")
    if case["qoe"] == 2 and "filler" in kinds and case["parsed"]:
        cls.append("raise-mode-with-filler")
    if case["stream"] == "socket" and any(case.get("gaps") or []):
        cls.append("socket-delivery-gaps")
    if case.get("aligned") or any(i.get("aligned") for i in items):
        cls.append("item-aligned-to-buffer-size")
    if case.get("ubxlen"):
        cls.append("ubx-length-at-block-boundary")
    if case.get("pre"):
        cls.append("stream-handed-over-in-the-middle")
    if case.get("long"):
        cls.append("long-stream")
        if len(data) > 1024 * 1024:
            cls.append("more-than-1MiB-through-one-socket")
    if any(i.get("huge") for i in items):
        cls.append("ubx-length>=32767")
    if any(i["k"] == "frame" and len(i["b"]) == 16 for i in items):
        cls.append("two-byte-payload-frame")
    if case["stream"] == "socket" and case["cuts"]:
        # a cut inside some frame header
        off = 0
        for i in items:
            ln = len(i["b"]) // 2
            if i["k"] == "frame" and any(off < c < off + 3 for c in case["cuts"]):
                cls.append("cut-in-frame-header")
                break
            off += ln
    first_must = next((k for k, i in enumerate(items) if i["k"] == "frame"), None)
    last_must = max((k for k, i in enumerate(items) if i["k"] == "frame"), default=None)
    foreign_between = first_must is not None and any(i["k"] != "frame" for i in items[:last_must])
    nt = nmust >= 2 and foreign_between
    return Res(nontrivial=nt, classes=cls)


@st.composite
def s_seq(draw, tier):
    fill_ok = draw(st.booleans())
    items = streams.flatten(draw(st.lists(streams.wellformed_items("small", fillers_ok=fill_ok), min_size=1, max_size=14)))
    has_filler = any(i["k"] == "filler" for i in items)
    case = {"items": items}
    case["stream"] = draw(st.sampled_from(["bytesio", "buffered", "socket", "pipe"]))
    case["parsed"] = draw(st.sampled_from([True, True, False]))
    case["qoe"] = draw(st.sampled_from([0, 1, 2]))
    if case["stream"] == "pipe":
        case["bufsize"] = draw(st.sampled_from([1, 16, 64, 8192]))
    if case["stream"] in ("bytesio", "buffered") and draw(st.integers(0, 2)) == 0:
        # what the application consumed before handing the stream over: frames and foreign items like those that follow
        # (a reader that seeks by its own byte count would land in them), 20 .. a few hundred bytes
        head = streams.flatten(draw(st.lists(streams.wellformed_items("small", fillers_ok=False), min_size=1, max_size=4)))
        case["pre"] = (streams.join(head) + bytes(draw(st.integers(0, 40))))[:600].hex()
    if case["stream"] == "buffered":
        case["bufsize"] = draw(st.sampled_from([1, 2, 3, 7, 16, 64, 4096, 8192, 8192]))  # 8192: what open(path, "rb") uses
    if case["stream"] == "socket":
        case["bufsize"] = draw(st.sampled_from([1, 2, 3, 5, 64, 512, 4096]))
    if case["stream"] != "bytesio" and draw(st.integers(0, 2)) == 0:
        # an item placed at a chosen distance from a multiple of the buffer size (inert noise in front)
        case["items"] = items = draw(streams.align_to(items, case["bufsize"]))
    n = sum(len(i["b"]) // 2 for i in items)
    if case["stream"] == "socket":
        case["cuts"] = streams.modulus_cuts(n, case["bufsize"]) if case["bufsize"] > 1 and draw(st.integers(0, 4)) == 0 else draw(streams.partitions(n))
        case["gaps"] = draw(st.one_of(st.just([]), st.lists(st.booleans(), min_size=1, max_size=6)))
    return case


def e_long(tier, shard, nshards):
    """long well-formed streams: thousands of small items (a reader that recurses, or keeps per-frame state with an
    eviction rule, only shows on long inputs)"""
    from pv import framing as fr

    n = 1500 if tier == "quick" else 12000
    k = 0
    for kind in ("frames", "mixed", "nmea-runs", "ubx-runs", "noise-runs"):
        for stream in ("bytesio", "socket"):
            k += 1
            if k % nshards != shard:
                continue
            items = []
            for j in range(n):
                f = {"k": "frame", "b": fr.build_frame(bytes([0xFE, 0x80 | (j & 7), j & 0xFF, (j >> 8) & 0xFF])).hex(), "ident": "4072"}
                if kind == "frames":
                    items.append(f)
                elif kind == "mixed":
                    items.append([f, {"k": "nmea", "b": b"$GNGGA,%d*00\r\n".hex() if False else (b"$GNGGA," + str(j).encode() + b"*00\r\n").hex()}, {"k": "ubx", "b": (b"\xb5\x62\x01\x02\x02\x00" + bytes([j & 0xFF, 0xD3]) + b"\x00\x00").hex()}][j % 3])
                elif kind == "nmea-runs":
                    items.append({"k": "nmea", "b": (b"$GPGSV," + str(j).encode() + b"\r\n").hex()} if j % 50 else f)
                elif kind == "ubx-runs":
                    items.append({"k": "ubx", "b": (b"\xb5\x62\x01\x02\x01\x00" + bytes([j & 0xFF]) + b"\x00\x00").hex()} if j % 50 else f)
                else:
                    items.append({"k": "noise", "b": bytes([1 + j % 30]).hex()} if j % 50 else f)
            if kind in ("nmea-runs", "ubx-runs", "noise-runs"):
                # one uninterrupted run of foreign items between frames (no frame in between)
                foreign = [i for i in items if i["k"] != "frame"]
                f0 = {"k": "frame", "b": fr.build_frame(b"\xfe\x80\x00\x01").hex(), "ident": "4072"}
                items = [f0] + foreign + [f0, f0]
            case = {"items": items, "stream": stream, "parsed": True, "qoe": 2, "long": n}
            if stream == "socket":
                case["bufsize"] = 4096
                case["cuts"] = list(range(1000, sum(len(i["b"]) // 2 for i in items), 1000))
            yield case


def e_big_socket(tier, shard, nshards):
    """more than 1 MiB (thorough: 5 MiB) of well-formed traffic through ONE socket connection"""
    from pv import framing as fr

    if shard != 0:
        return
    total = (1536 if tier == "quick" else 5 * 1024) * 1024
    items = []
    size = 0
    j = 0
    while size < total:
        p = bytes([0xFE, 0x80 | (j & 7)]) + bytes([(j * 7 + k) & 0xFF for k in range(1021)])
        items.append({"k": "frame", "b": fr.build_frame(p).hex(), "ident": "4072", "big": True})
        size += 1029
        if j % 5 == 0:
            items.append({"k": "nmea", "b": (b"$GNGGA," + str(j).encode() + b"*00\r\n").hex()})
        j += 1
    n = sum(len(i["b"]) // 2 for i in items)
    yield {"items": items, "stream": "socket", "parsed": True, "qoe": 2, "bufsize": 4096, "cuts": list(range(1400, n, 1400)), "long": len(items)}


def e_aligned(tier, shard, nshards):
    """an item behind a run of inert noise, starting 3 bytes before .. 3 bytes behind a multiple of the stream's
    buffer size (complete over buffer sizes x distances x item kinds x stream kinds): a reader that looks ahead in
    what the stream has buffered must not lose the item that straddles the end of the buffer"""
    from pv import framing as fr

    f0 = {"k": "frame", "b": fr.build_frame(b"\xfe\x80\x00\x01").hex(), "ident": "4072"}
    f1 = {"k": "frame", "b": fr.build_frame(b"\xfe\x81" + bytes(range(1, 40))).hex(), "ident": "4072"}
    f2 = {"k": "frame", "b": fr.build_frame(b"\xfe\x82\x07").hex(), "ident": "4072"}
    things = {
        "frame": [f1],
        "ubx": [{"k": "ubx", "b": (b"\xb5\x62\x01\x07\x04\x00\x01\x02\x03\x04\xaa\xbb").hex()}, f1],
        "nmea": [{"k": "nmea", "b": b"$GNGGA,123519,4807.038,N*47\r\n".hex()}, f1],
    }
    k = 0
    for bs in (512, 4096, 8192):
        for mult in (1, 2):
            for d in range(-3, 4):
                for what in ("frame", "ubx", "nmea"):
                    for stream in ("buffered", "socket", "bytesio"):
                        k += 1
                        if k % nshards != shard:
                            continue
                        pad = mult * bs + d - len(f0["b"]) // 2
                        noise = {"k": "noise", "b": bytes(streams._INERT[(7 * j) % len(streams._INERT)] for j in range(pad)).hex(), "aligned": bs}
                        items = [f0, noise] + things[what] + [f2]
                        case = {"items": items, "stream": stream, "parsed": True, "qoe": 2, "bufsize": bs, "aligned": [bs, d]}
                        if stream == "socket":
                            case["cuts"] = streams.modulus_cuts(sum(len(i["b"]) // 2 for i in items), bs)
                        yield case


def e_ubx_lengths(tier, shard, nshards):
    """UBX items whose length field is at, or up to 4 bytes below / 2 above, every multiple of 4096 and every power of
    two from 256 (complete): a reader that skips or reads foreign items in blocks meets every remainder"""
    from pv import framing as fr

    f0 = {"k": "frame", "b": fr.build_frame(b"\xfe\x80\x00\x01").hex(), "ident": "4072"}
    f1 = {"k": "frame", "b": fr.build_frame(b"\xfe\x81\x05\x06\x07").hex(), "ident": "4072"}
    lens = set()
    for m in range(1, 17):
        lens.update(m * 4096 + j for j in range(-4, 3))
    for e in range(8, 16):
        lens.update((1 << e) + j for j in range(-4, 3))
    for n, ln in enumerate(sorted(x for x in lens if 0 <= x <= 65535)):
        if n % nshards != shard:
            continue
        body = bytes((i * 13) & 0x7F | 1 for i in range(ln))
        u = {"k": "ubx", "b": (b"\xb5\x62\x02\x15" + ln.to_bytes(2, "little") + body + b"\x31\x32").hex(), "ln": ln, "huge": ln >= 32767}
        case = {"items": [f0, u, f1, u, f0], "stream": ("bytesio", "buffered", "socket")[n % 3], "parsed": True, "qoe": 2, "bufsize": 4096, "ubxlen": ln}
        if case["stream"] == "socket":
            case["cuts"] = list(range(1400, 2 * ln + 60, 1400))[:400]
        yield case


def e_all(tier, shard, nshards):
    yield from e_long(tier, shard, nshards)
    yield from e_big_socket(tier, shard, nshards)
    yield from e_aligned(tier, shard, nshards)
    yield from e_ubx_lengths(tier, shard, nshards)


def _sample(c):
    if c.get("long"):
        return {"long": c["long"], "stream": c["stream"], "items": f"{len(c['items'])} small items"}
    if c.get("aligned") or c.get("ubxlen"):
        return {k: (v if k != "items" else [f"{i['k']} of {len(i['b']) // 2} bytes" for i in v]) for k, v in c.items()}
    return {k: (v if k != "items" else [{**i, "b": i["b"][:48] + ("..." if len(i["b"]) > 48 else "")} for i in v]) for k, v in c.items()}


SUBS = [
    Sub(
        "wellformed_sequences",
        o_seq,
        strategy=s_seq,
        enum=e_all,
        examples=(150, 4000),
        rule="see property rule",
        need={"raise-mode-with-filler": 1, "socket-delivery-gaps": 1, "more-than-1MiB-through-one-socket": 1, "long-stream": 1, "ubx-length>=32767": 1, "item-aligned-to-buffer-size": 300, "ubx-length-at-block-boundary": 100, "stream-handed-over-in-the-middle": 20, "pipe": 1, "two-byte-payload-frame": 1, "zero-length-frame": 1, "has-1023-frame": 1, "ubx-with-sync-bytes": 1, "socket": 1, "buffered": 1, "qoe2": 1},
        sample=_sample,
    ),
]
