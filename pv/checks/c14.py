"""C14 - parsed messages are immutable."""

from hypothesis import strategies as st

from pv import core, gen
from pv.core import Fail, Res, Sub

PROPERTY = "C14"
RULE = (
    "messages of every identity (model-built), unknown stubs, MSM and STR-bearing types x sequences of setattr(name, value) "
    "with names drawn from every public attribute, every private attribute in __dict__, the properties payload / identity / "
    "ismsm, _immutable, and fresh identifiers; each attempt must raise RTCMMessageError and the snapshot (payload, identity, "
    "public attributes, private __dict__, str, repr, serialize()) must be identical afterwards. Non-trivial: the sequence touches "
    "a derived MSM attribute or a private name; distinct by (payload, names)."
)
ASSUMPTIONS = ["'assign' means setattr / attribute assignment; del, __dict__ pokes and object.__setattr__ are outside the statement"]

# the last ones: values that are costly or impossible to render (CPython refuses str() of ints beyond 4300 digits)
VALUES = [0, 1, -1, 3.5, "x", b"\x00", None, True, [], {"a": 1}, 1 << 16384, [-(1 << 20000)], "y" * 100000, float("nan"), len, lambda *a, **k: b"\xd3\x00\x00", bytes]
FRESH = ["foo", "DF999", "x", "_y", "__z", "NSat2", "payload2", "DF002_01", "_immutable", "payload", "identity", "ismsm", "_payload", "_payloadi", "_payblen", "_labelmsm", "_unknown", "_satmap", "_cellmap", "__dict__", "__class__", "100%", "%d", "%(b)s", "a%", "{}", "{0}", "{name}", "a b", "", "\u00e9", "\\", "DF002\n", "1DF", "serialize", "_do_attributes", "_get_dict", "__str__", "__repr__", "__setattr__", "__init__", "DF025_\u00b2", "x_1_\u2460", "DF009_" + "7" * 4301, "DF009_\u0663"]


def _r(v):
    try:
        return repr(v)[:60]
    except ValueError:
        return f"<{type(v).__name__} that cannot be rendered>"


def snapshot(m):
    d = {k: v for k, v in m.__dict__.items() if not k.startswith("_")}
    return (bytes(m.payload), m.identity, list(d.items()), str(m), repr(m), bytes(m.serialize()), m.ismsm, sorted(k for k in m.__dict__ if not k.startswith("_")))


def build(p, lm, source):
    """the same message obtained through the different entry points (the statement covers every message)"""
    import io

    from pyrtcm import RTCMMessage, RTCMReader

    from pv import framing
    from pv.doubles import ScriptedSocket

    if source == "static":
        return RTCMReader.parse(framing.build_frame(p), labelmsm=lm)
    if source == "reader-file":
        return next(iter(RTCMReader(io.BytesIO(framing.build_frame(p)), labelmsm=lm, quitonerror=2)))[1]
    if source == "reader-socket":
        f = framing.build_frame(p)
        sock = ScriptedSocket([f[: len(f) // 2], f[len(f) // 2 :], "close"])
        try:
            return next(iter(RTCMReader(sock, labelmsm=lm, quitonerror=2, bufsize=64)))[1]
        finally:
            sock.close()
    m = RTCMMessage(payload=p, labelmsm=lm)
    if source == "copy":
        import copy

        return copy.copy(m)
    if source == "deepcopy":
        import copy

        return copy.deepcopy(m)
    if source == "pickle":
        import pickle

        return pickle.loads(pickle.dumps(m))
    return m


def other_constructions(k):
    """constructor activity between two assignment attempts: failing and succeeding constructions of OTHER messages
    (an object's immutability must not depend on what is constructed elsewhere)"""
    from pyrtcm import RTCMMessage, RTCMReader

    for payload in ((None, b"", b"\x3e", b"\x3e\xd0\x00", b"\xfe\x80\x01\x02")[k % 5], b"\x43\x50\x00"):
        try:
            RTCMMessage(payload=payload)
        except Exception:  # pylint: disable=broad-except
            pass
    if k % 2:
        try:
            RTCMReader.parse(b"\xd3\x00\x02\x3e\xd0\x00\x00\x00", validate=0)
        except Exception:  # pylint: disable=broad-except
            pass


AUG = {bytes: b"\x00", int: 1, float: 1.5, str: "x", bool: True}


def o_setattr(case):
    from pyrtcm import RTCMMessage
    from pyrtcm.exceptions import RTCMMessageError

    p = bytes.fromhex(case["payload"])
    m = build(p, case.get("labelmsm", 1), case.get("source", "ctor"))
    before = snapshot(m)
    names = list(m.__dict__)
    touched = []
    for sel, vi in case["ops"]:
        if sel < 0:
            name = FRESH[(-sel - 1) % len(FRESH)]
        else:
            name = names[sel % len(names)]
        val = VALUES[vi % len(VALUES)]
        if name in ("__dict__", "__class__") and not isinstance(val, (dict, type)):
            pass
        touched.append(name)
        if case.get("interleave") and (sel + vi) % 3 == 0:
            other_constructions(sel + vi)
        try:
            setattr(m, name, val)
        except RTCMMessageError:
            pass
        except Exception as e:  # pylint: disable=broad-except
            raise Fail("wrong-exception", f"setattr({name!r}, {_r(val)}) on {before[1]} raised {type(e).__name__}: {e}") from e
        else:
            raise Fail("assignment-accepted", f"setattr({name!r}, {_r(val)}) on a {before[1]} message did not raise")
        if case.get("direct") and ((name.isidentifier() and not name.startswith("__") and name in m.__dict__) or name in ("payload", "identity")):
            # augmented assignment is an assignment attempt too: m.name += v must raise and change nothing (a mutable
            # private value - list, dict, set - would be changed in place before the assignment is refused)
            cur = getattr(m, name)
            inc = next((v for t, v in AUG.items() if type(cur) is t), None)
            if isinstance(cur, (bytes, bytearray)):
                inc = b"\x00"
            op = "+="
            if isinstance(cur, list):
                inc = [names[0]]
            elif isinstance(cur, (dict, set)):
                op, inc = "|=", ({names[0]: 1} if isinstance(cur, dict) else {names[0]})
            if inc is not None:
                try:
                    exec(f"m.{name} {op} inc", {"m": m, "inc": inc})  # pylint: disable=exec-used
                except RTCMMessageError:
                    pass
                except Exception as e:  # pylint: disable=broad-except
                    raise Fail("wrong-exception", f"m.{name} += {inc!r} raised {type(e).__name__}: {e}") from e
                else:
                    raise Fail("assignment-accepted", f"m.{name} += {inc!r} on a {before[1]} message did not raise")
                touched.append(name)
        if case.get("direct") and name.isidentifier() and not name.startswith("__"):
            try:
                exec(f"m.{name} = val", {"m": m, "val": val})  # pylint: disable=exec-used
            except RTCMMessageError:
                pass
            except Exception as e:  # pylint: disable=broad-except
                raise Fail("wrong-exception", f"m.{name} = {_r(val)} raised {type(e).__name__}") from e
            else:
                raise Fail("assignment-accepted", f"m.{name} = {_r(val)} on a {before[1]} message did not raise")
    try:
        after = snapshot(m)
    except Exception as e:  # pylint: disable=broad-except
        # payload / identity / str() / serialize() worked before the attempts and do not work now
        raise Fail("state-changed", f"{before[1]}: after attempts on {touched[:8]} the message can no longer be inspected: {type(e).__name__}: {e}") from e
    if after != before:
        which = [n for n, (a, b) in enumerate(zip(before, after)) if a != b]
        raise Fail("state-changed", f"{before[1]}: snapshot components {which} changed after attempts on {touched[:8]}")
    cls = ["msm" if m.ismsm else ("stub" if getattr(m, "_unknown", False) else "defined")]
    derived = any(t.startswith(("PRN_", "CELLPRN_", "CELLSIG_", "NSat", "NSig", "NCell")) for t in touched)
    private = any(t.startswith("_") for t in touched)
    if derived:
        cls.append("touch-derived")
    if private:
        cls.append("touch-private")
    if any(t in ("payload", "identity", "ismsm") for t in touched):
        cls.append("touch-property")
    cls.append("source-" + case.get("source", "ctor"))
    if case.get("zerocrc"):
        cls.append("frame-checksum-000000")
    if case.get("interleave"):
        cls.append("other-constructions-interleaved")
    return Res(nontrivial=derived or private, classes=cls, evals=len(case["ops"]))


@st.composite
def s_setattr(draw, tier):
    k = draw(st.integers(0, 9))
    if k <= 6:
        c = draw(gen.any_message("small"))
    elif k == 7:
        c = draw(st.sampled_from([i for i in gen.all_idents_safe() if "1070" < i < "1140"]).flatmap(lambda i: gen.messages(i, "small")))
    else:
        c = {"payload": draw(gen.unknown_payloads("small")).hex()}
    if draw(st.integers(0, 9)) == 0:
        # the same message with three bytes appended that make the checksum of its frame 000000 (a value like any other)
        from pv import framing

        c = {"payload": framing.frame_with_trailer(bytes.fromhex(c["payload"])[:1020], b"\0\0\0")[3:-3].hex(), "zerocrc": True}
    ops = draw(st.lists(st.tuples(st.integers(-len(FRESH), 400), st.integers(0, len(VALUES) - 1)), min_size=1, max_size=12))
    return {
        "payload": c["payload"],
        "zerocrc": bool(c.get("zerocrc")),
        "labelmsm": draw(st.sampled_from([1, 2])),
        "ops": [list(o) for o in ops],
        "direct": draw(st.booleans()),
        "source": draw(st.sampled_from(["ctor", "ctor", "static", "reader-file", "reader-socket", "copy", "deepcopy", "pickle"])),
        "interleave": draw(st.booleans()),
    }


def _short(c):
    c = dict(c)
    if len(c.get("payload", "")) > 120:
        c["payload"] = c["payload"][:120] + "..."
    return c


# ------------------------------------------------------------------ whatever the constructor returns is sealed
def o_sealed(case):
    """every byte-truncation of a generated payload (and the payload with bytes appended): most are rejected by the
    constructor - not this property's business - but whatever object IS returned, for whatever input, is a parsed
    message and refuses assignment like any other"""
    from pyrtcm import RTCMMessage
    from pyrtcm.exceptions import RTCMMessageError

    from pv.checks.c04 import lib_errors

    full = bytes.fromhex(case["payload"])
    core.note_input(len(full) * (len(full) + 8))
    built = rejected = 0
    for cut in list(range(2, len(full))) + [len(full) + k for k in (0, 1, 3)]:
        p = full[:cut] if cut <= len(full) else full + bytes(cut - len(full))
        try:
            m = RTCMMessage(payload=p, labelmsm=case.get("labelmsm", 1))
        except lib_errors():
            rejected += 1
            continue
        built += 1
        before = snapshot(m)
        names = [n for n in m.__dict__ if not n.startswith("_")]
        for name, val in ((names[0] if names else "DF002", 1), ("NEWATTR", 1), ("_payload", b"\x00\x00"), (names[-1] if names else "DF002", None)):
            try:
                setattr(m, name, val)
            except RTCMMessageError:
                continue
            except Exception as e:  # pylint: disable=broad-except
                raise Fail("wrong-exception", f"setattr({name!r}) on {before[1]} built from {cut} of {len(full)} payload bytes raised {type(e).__name__}: {e}") from e
            raise Fail("assignment-accepted", f"setattr({name!r}, {val!r}) on a {before[1]} message built from {cut} of {len(full)} payload bytes did not raise")
        if snapshot(m) != before:
            raise Fail("state-changed", f"{before[1]} built from {cut} of {len(full)} payload bytes changed after refused assignments")
    return Res(nontrivial=built > 1, classes=["some-truncations-accepted" if built > 4 else "only-complete-accepted"], evals=built + rejected)


def plan_sealed(tier, shard, nshards):
    ids = gen.all_idents_safe()[shard::nshards]
    n = 4 if tier == "quick" else 60
    return [(i, gen.messages(i, "small" if tier == "quick" else "mixed"), n) for i in ids]


SUBS = [
    Sub("setattr_sequences", o_setattr, strategy=s_setattr, examples=(200, 4000), rule="touches a derived MSM attribute or a private name", need={"msm": 1, "stub": 1, "touch-private": 1, "touch-derived": 1, "touch-property": 1, "source-reader-socket": 1, "source-pickle": 1, "source-copy": 1, "other-constructions-interleaved": 1, "frame-checksum-000000": 1}, sample=_short),
    Sub("truncated_or_extended_payloads_are_sealed", o_sealed, plan=plan_sealed, rule="more than one of the truncations / extensions yields a message", sample=_short),
]
