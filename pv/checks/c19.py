"""C19 - attribute-name helpers handle every name the parser generates."""

from hypothesis import strategies as st

from pv import gen, model
from pv import core
from pv.core import Fail, Res, Sub, digest

PROPERTY = "C19"
RULE = (
    "every public attribute name on model-built messages of every identity (counts pushed past 9 and 99 where the definition "
    "allows, two nesting levels), plus a COMPLETE static sweep: every field key of every definition with synthetic index suffixes of "
    "1, 2 and 3 digits at the nesting depth the definition gives it. The independent interpreter knows each name's field key K and "
    "index tuple I: datadesc(name) must equal RTCM_DATA_FIELDS[K][3]; for indexed names att2idx(name) must equal I[0] (one level) or "
    "tuple(I) and att2name(name) must equal K. Non-trivial: the name is indexed, or has an IDF / derived / ExtSatInfo base, or its key "
    "contains '_'. Distinct by name."
)
ASSUMPTIONS = [
    "NSat / NSig / NCell are not data fields and are excluded",
    "nothing is asserted about att2idx / att2name on un-indexed names (the statement says 'for every indexed attribute')",
]


def check_name(name, key, idx, ident=""):
    from pyrtcm.rtcmhelpers import att2idx, att2name, datadesc

    F = model.tables()["F"]
    want = F[key][3]
    try:
        got = datadesc(name)
    except Exception as e:  # pylint: disable=broad-except
        base = "IDF" if key.startswith("IDF") else ("DF" if key.startswith("DF") else key)
        raise Fail(f"datadesc-raises-{base}", f"datadesc({name!r}) raised {type(e).__name__}: {e} (field {key}, {ident})") from e
    if got != want:
        raise Fail("datadesc-wrong", f"datadesc({name!r}) = {got!r}, field {key} is described as {want!r} ({ident})")
    if idx:
        wi = idx[0] if len(idx) == 1 else tuple(idx)
        try:
            gi = att2idx(name)
            gn = att2name(name)
        except Exception as e:  # pylint: disable=broad-except
            raise Fail("att2-raises", f"{name!r}: {type(e).__name__}: {e}") from e
        if gi != wi or type(gi) is not type(wi):
            raise Fail("att2idx-wrong", f"att2idx({name!r}) = {gi!r}, generated with indices {wi!r} ({ident})")
        if gn != key:
            raise Fail("att2name-wrong", f"att2name({name!r}) = {gn!r}, field key is {key!r} ({ident})")
    return bool(idx) or not key.startswith("DF") or "_" in key


def o_msg(case):
    core.note_input(len(case.get("payload", "")) // 2 + 1000)  # one message and its attribute names: a bounded amount of helper work
    from pyrtcm import RTCMMessage

    p = bytes.fromhex(case["payload"])
    ident, w = model.decode(p)
    m = RTCMMessage(payload=p)
    names = [k for k in m.__dict__ if not k.startswith("_")]
    known = {}
    for it in w.items:
        known[it.key if it.typ == "STR" else it.attr] = (it.key, () if it.typ == "STR" else it.idx)
    digs = []
    cls = set()
    n = 0
    for name in names:
        if name in ("NSat", "NSig", "NCell"):
            continue
        if name not in known:
            raise Fail("unknown-attribute", f"{ident}: attribute {name!r} was not produced by any field of the definition")
        key, idx = known[name]
        nt = check_name(name, key, idx, ident)
        n += 1
        if nt:
            digs.append(digest(name))
        if len(idx) == 2:
            cls.add("two-levels")
        if any(i >= 100 for i in idx):
            cls.add("three-digit-index")
        if any(10 <= i < 100 for i in idx):
            cls.add("two-digit-index")
        if key.startswith("IDF"):
            cls.add("IDF")
        if key in ("PRN", "CELLPRN", "CELLSIG", "ExtSatInfo"):
            cls.add("derived-or-ext")
        if "_" in key:
            cls.add("key-with-underscore")
    return Res(nontrivial=bool(digs), classes=sorted(cls), evals=n, digests=digs)


def plan_msg(tier, shard, nshards):
    ids = gen.all_idents_safe()[shard::nshards]
    n = 3 if tier == "quick" else 40
    return [(i, st.one_of(gen.messages(i, "small"), gen.messages(i, "mixed"), gen.messages(i, "max")), n) for i in ids]


def o_static(case):
    """one identity: every field key at its definition depth with synthetic 1/2/3-digit indices"""
    core.note_input(1000)  # the names of one definition: a bounded amount of helper work
    ident = case["ident"]
    d = model.definition(ident)
    digs = []
    n = 0
    cls = set()

    def rec(dd, depth):
        nonlocal n
        for k, v in dd.items():
            if isinstance(v, tuple):
                cnt, sub = v
                if isinstance(sub, dict):
                    rec(sub, depth if isinstance(cnt, tuple) else depth + 1)
                continue
            F = model.tables()["F"]
            if k not in F:
                raise model.BadDefinition(f"field '{k}' in {ident} is not a defined data field")
            if F[k][0] == "STR":
                combos = [()]
            elif depth == 0:
                combos = [()]
            elif depth == 1:
                combos = [(1,), (9,), (10,), (64,), (99,), (100,), (153,)]
            else:
                combos = [(1, 1), (2, 10), (10, 2), (4, 100), (12, 153), (63, 31)][: 6 if depth == 2 else 0] or [tuple(range(1, depth + 1))]
            for idx in combos:
                name = k + "".join(f"_{i:02d}" for i in idx)
                if check_name(name, k, idx, ident):
                    digs.append(digest(name))
                n += 1
                if depth >= 2:
                    cls.add("two-levels")
                if "_" in k and depth:
                    cls.add("underscore-key-in-group")

    rec(d, 0)
    return Res(nontrivial=bool(digs), classes=sorted(cls), evals=n, digests=digs)


def e_static(tier, shard, nshards):
    for i in gen.all_idents()[shard::nshards]:
        yield {"ident": i}


def o_optimized(case):
    """the names the parser generates, and the helpers' answers, in a python -O child (asserts compiled out)"""
    from pv import child

    F = model.tables()["F"]
    reqs = [{"payload": p, "lm": 1, "helpers": True} for p in case["batch"]]
    res = child.decode_in_child(reqs, optimize=True)
    n = 0
    for hx, r in zip(case["batch"], res):
        ident, w = model.decode(bytes.fromhex(hx))
        if not r["ok"]:
            raise Fail("python-O-rejects-valid-message", f"{ident}: {r['exc']} under python -O")
        known = {}
        for it in w.items:
            known[it.key if it.typ == "STR" else it.attr] = (it.key, () if it.typ == "STR" else it.idx)
        for name, desc, idx, is_tuple, base in r["helpers"]:
            if name in ("NSat", "NSig", "NCell"):
                continue
            if name not in known:
                raise Fail("unknown-attribute-under-O", f"{ident}: under python -O the parser produced attribute {name!r}, which no field of the definition generates")
            key, ix = known[name]
            if desc != F[key][3]:
                raise Fail("datadesc-wrong-under-O", f"datadesc({name!r}) = {desc!r} under python -O")
            if ix:
                want = list(ix) if len(ix) > 1 else ix[0]
                if idx != want or base != key:
                    raise Fail("att2-wrong-under-O", f"{name!r}: att2idx {idx!r} att2name {base!r} under python -O, generated from {key} {ix}")
            n += 1
    return Res(nontrivial=True, classes=["python-O"], evals=n)


@st.composite
def s_optimized(draw, ids):
    return {"batch": [draw(gen.messages(draw(st.sampled_from(ids)), "small"))["payload"] for _ in range(10)]}


def plan_optimized(tier, shard, nshards):
    ids = gen.all_idents_safe()[shard::nshards]
    return [("", s_optimized(ids), 2 if tier == "quick" else 20)] if ids else []


def _short(c):
    if "batch" in c:
        return {"batch": [b[:60] for b in c["batch"][:3]], "n": len(c["batch"])}
    c = dict(c)
    if len(c.get("payload", "")) > 160:
        c["payload_len"] = len(c["payload"]) // 2
        c["payload"] = c["payload"][:160] + "..."
    return c


SUBS = [
    Sub("names_on_messages", o_msg, plan=plan_msg, rule="indexed / IDF / derived / underscore-key names, distinct by name", need={"two-levels": 1, "three-digit-index": 1, "IDF": 1, "derived-or-ext": 1, "key-with-underscore": 1}, sample=_short),
    Sub("names_under_python_O", o_optimized, plan=plan_optimized, rule="every case: 10 messages in a python -O child", sample=_short),
    Sub("static_sweep", o_static, enum=e_static, exhaustive=True, rule="every field key of every definition x synthetic 1/2/3-digit indices at its nesting depth (complete over definitions)", need={"two-levels": 1}),
]
