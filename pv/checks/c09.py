"""C09 - MSM masks map to the right satellites, signals and cells."""

from hypothesis import strategies as st

from pv import gen, model, pins
from pv.core import Fail, Res, Sub

PROPERTY = "C09"
RULE = (
    "49 MSM identities x satellite masks (empty, every single bit incl. ID 64, dense, arbitrary) x signal masks (empty, every "
    "single bit incl. reserved IDs and ID 32, arbitrary; NSat x NSig <= 64 by construction) x cell masks (empty, full, arbitrary) "
    "x label option {1, 2}; reference mask decoder working on pinned bit offsets (73 / 137 / 169) with pinned PRN numbering and "
    "RINEX code tables: NSat/NSig/NCell = popcounts, PRN_i = label of the i-th set bit (MSB = ID 1), cells satellite-major, "
    "CELLSIG = pinned RINEX code (option 1) or a band label consistent with a single-signal probe message (option 2), 'N/A' for IDs "
    "outside the pinned tables under both options. Non-trivial: NCell >= 1 and (NSat >= 2 or NSig >= 2), or a reserved / "
    "out-of-range ID present."
)
ASSUMPTIONS = [
    "RINEX / PRN pins are the harness's transcription of RTCM 10403.3 (cross-checked with RTKLIB)",
    "band labels (option 2) are pyrtcm vocabulary: checked for consistency and for the N/A marker, not against a pin",
]

SAT0, SIG0, CELL0 = 73, 137, 169


def prn(cons, sat_id):
    lab = pins.prn_label(cons, sat_id)
    return pins.na_marker() if lab == pins.NA else lab


def ref_masks(payload):
    total = len(payload) * 8
    v = int.from_bytes(payload, "big")

    def bits(a, n):
        return (v >> (total - a - n)) & ((1 << n) - 1) if n else 0

    sat = bits(SAT0, 64)
    sig = bits(SIG0, 32)
    sats = [i + 1 for i in range(64) if sat >> (63 - i) & 1]
    sigs = [i + 1 for i in range(32) if sig >> (31 - i) & 1]
    x = len(sats) * len(sigs)
    cm = bits(CELL0, x)
    cells = []
    k = 0
    for s in sats:
        for g in sigs:
            if cm >> (x - 1 - k) & 1:
                cells.append((s, g))
            k += 1
    return sats, sigs, cells


_PROBE = {}


def probe_label(ident, sig_id, lm):
    """label pyrtcm gives signal `sig_id` in a one-satellite, one-signal, one-cell message of this type"""
    from pyrtcm import RTCMMessage

    key = (ident[:3], sig_id, lm)
    if key not in _PROBE:
        fixed = {"DF394": 1 << 63, "DF395": 1 << (32 - sig_id), "DF396": 1}
        w = model.Walk(ident, lambda k, wd, w, idx: (fixed.get(k, 0) if k in fixed else (int(ident) if k == "DF002" else 0))).run()
        m = RTCMMessage(payload=w.payload(0), labelmsm=lm)
        _PROBE[key] = getattr(m, "CELLSIG_01")
    return _PROBE[key]


def check_msm(ident, payload, m, lm, what="msm"):
    """judge the derived attributes of a parsed MSM message against the reference decoder; returns (sats, sigs, cells)"""
    cons = pins.msm_cons(ident)
    sats, sigs, cells = ref_masks(payload)
    for name, want in (("NSat", len(sats)), ("NSig", len(sigs)), ("NCell", len(cells))):
        got = getattr(m, name, None)
        if got != want:
            raise Fail(f"{what}-count-{name}", f"{ident}: {name} = {got!r}, mask has {want} set bits; payload {payload.hex()[:100]}")
    for i, s in enumerate(sats, 1):
        got = getattr(m, f"PRN_{i:02d}", None)
        want = prn(cons, s)
        if got != want:
            raise Fail(f"{what}-PRN-{cons}", f"{ident}: PRN_{i:02d} = {got!r}, the {i}-th set bit is satellite ID {s} -> {want!r}")
    if hasattr(m, f"PRN_{len(sats) + 1:02d}"):
        raise Fail(f"{what}-PRN-extra", f"{ident}: more PRN entries than satellites")
    for k, (s, g) in enumerate(cells, 1):
        gp = getattr(m, f"CELLPRN_{k:02d}", None)
        wp = prn(cons, s)
        if gp != wp:
            raise Fail(f"{what}-CELLPRN", f"{ident}: CELLPRN_{k:02d} = {gp!r}, cell {k} is satellite ID {s} -> {wp!r} (cells are satellite-major)")
        gs = getattr(m, f"CELLSIG_{k:02d}", None)
        code = pins.RINEX[cons].get(g)
        if code is None:
            if gs != pins.na_marker():
                raise Fail(f"{what}-CELLSIG-undefined-id", f"{ident} labelmsm={lm}: CELLSIG_{k:02d} = {gs!r} for signal ID {g}, which RTCM 10403.3 does not define for {cons}; expected {pins.na_marker()!r}")
        elif lm == 2:
            want = probe_label(ident, g, 2)
            if not isinstance(gs, str) or not gs or gs == pins.na_marker() or gs != want:
                raise Fail(f"{what}-CELLSIG-band", f"{ident} labelmsm=2: CELLSIG_{k:02d} = {gs!r} for signal ID {g}; the same ID is labelled {want!r} in a single-signal message")
        else:
            if gs != code:
                raise Fail(f"{what}-CELLSIG-rinex", f"{ident}: CELLSIG_{k:02d} = {gs!r}, signal ID {g} of {cons} is RINEX code {code!r}")
    if hasattr(m, f"CELLPRN_{len(cells) + 1:02d}") or hasattr(m, f"CELLSIG_{len(cells) + 1:02d}"):
        raise Fail(f"{what}-cell-extra", f"{ident}: more cell entries than set cell-mask bits")
    return sats, sigs, cells


def classes(ident, sats, sigs, cells):
    cons = pins.msm_cons(ident)
    cls = [f"msm{pins.msm_level(ident)}", cons]
    if not sats:
        cls.append("empty-sat-mask")
    if not sigs:
        cls.append("empty-sig-mask")
    if sats and sigs and not cells:
        cls.append("empty-cell-mask")
    if 64 in sats:
        cls.append("sat-id-64")
    if 32 in sigs:
        cls.append("sig-id-32")
    odd = any(prn(cons, s) == pins.na_marker() for s in sats) or any(g not in pins.RINEX[cons] for g in sigs)
    if odd:
        cls.append("reserved-or-out-of-range-id")
    if any(g not in pins.RINEX[cons] for _, g in cells):
        cls.append("cell-with-undefined-signal")
    if len(cells) >= 10:
        cls.append("cells>=10")
    if len(sats) * len(sigs) == 64:
        cls.append("cell-mask-exactly-64-bits")
    nt = (len(cells) >= 1 and (len(sats) >= 2 or len(sigs) >= 2)) or odd
    return nt, cls


def o_masks(case):
    from pv.core import diagnostics

    with diagnostics(bool(case.get("diag"))):
        return _o_masks(case)


def _o_masks(case):
    from pyrtcm import RTCMMessage

    if case.get("after_failed"):
        # an MSM message that is rejected part-way (cut inside its satellite / signal data) must leave nothing behind
        junk = bytes.fromhex(case["after_failed"])
        for cut in (len(junk) * 3 // 4, len(junk) // 2, 23):
            try:
                RTCMMessage(payload=junk[: max(3, cut)])
            except Exception:  # pylint: disable=broad-except
                pass

    ident = case["ident"]
    p = bytes.fromhex(case["payload"])
    lm = case["labelmsm"]
    via = case.get("via", "ctor")
    if via == "ctor":
        m = RTCMMessage(payload=p, labelmsm=lm)
    else:
        import io

        from pyrtcm import RTCMReader

        from pv import framing

        f = framing.build_frame(p)
        if via == "static":
            m = RTCMReader.parse(f, labelmsm=lm)
        else:
            m = next(iter(RTCMReader(io.BytesIO(f), labelmsm=lm, validate=0 if via == "reader-novalidate" else 1, quitonerror=2)))[1]
    sats, sigs, cells = check_msm(ident, p, m, lm)
    nt, cls = classes(ident, sats, sigs, cells)
    return Res(nontrivial=nt, classes=cls + [f"labelmsm{lm}", "via-" + via] + (["after-failed-msm-parse"] if case.get("after_failed") else []) + (["diagnostics-on"] if case.get("diag") else []))


def msm_messages(ident, profile="small"):
    return gen.messages(ident, profile)


def plan_masks(tier, shard, nshards):
    ids = pins.msm_ids()[shard::nshards]
    n = 120 if tier == "quick" else 2000

    def strat(i):
        base = st.builds(lambda c, lm, via, d: {**c, "labelmsm": lm, "via": via, "diag": d}, msm_messages(i), st.sampled_from([1, 2]), st.sampled_from(["ctor", "ctor", "static", "reader", "reader-novalidate"]), st.booleans())
        other = st.sampled_from(pins.msm_ids()).flatmap(lambda j: gen.messages(j, "small")).map(lambda c: c["payload"])
        return st.one_of(base, base, st.builds(lambda c, o: {**c, "after_failed": o}, base, other))

    return [(i, strat(i), n) for i in ids]


def e_single(tier, shard, nshards):
    """every single-bit satellite mask x every single-bit signal mask for every constellation (complete), both options"""
    k = 0
    for c in range(7):
        for lvl in (7,) if tier == "quick" else (1, 4, 7):
            ident = str(1070 + 10 * c + lvl)
            for sbit in range(64):
                for gbit in range(32):
                    k += 1
                    if k % nshards != shard:
                        continue
                    if tier == "quick" and (sbit * 32 + gbit) % 5 and not (sbit in (0, 63) or gbit in (0, 31)):
                        continue
                    fixed = {"DF394": 1 << (63 - sbit), "DF395": 1 << (31 - gbit), "DF396": 1}
                    w = model.Walk(ident, lambda key, wd, w, idx: fixed[key] if key in fixed else (int(ident) if key == "DF002" else 0)).run()
                    yield {"ident": ident, "payload": w.payload(0).hex(), "labelmsm": 1 + (k & 1)}


def e_full64(tier, shard, nshards):
    """cell masks of exactly 64 bits (the largest the standard allows): every factorisation NSat x NSig = 64"""
    k = 0
    for c in range(7):
        for lvl in (1, 4, 7) if tier == "quick" else range(1, 8):
            ident = str(1070 + 10 * c + lvl)
            for nsat, nsig in ((64, 1), (32, 2), (16, 4), (8, 8), (4, 16), (2, 32)):
                for cm in ("full", "alt"):
                    k += 1
                    if k % nshards != shard:
                        continue
                    satmask = ((1 << nsat) - 1) << (64 - nsat) if nsat < 64 else (1 << 64) - 1
                    if nsat == 8:
                        satmask = 0x8040201008040201
                    sigmask = ((1 << nsig) - 1) << (32 - nsig) if nsig < 32 else (1 << 32) - 1
                    if nsig == 4:
                        sigmask = 0x40201008
                    cell = (1 << 64) - 1 if cm == "full" else 0xA5A5A5A5A5A5A5A5
                    fixed = {"DF394": satmask, "DF395": sigmask, "DF396": cell}
                    w = model.Walk(ident, lambda key, wd, w, idx: fixed[key] if key in fixed else (int(ident) if key == "DF002" else ((1 << wd) - 1 if wd and key not in ("DF394", "DF395", "DF396") and idx else 0))).run()
                    yield {"ident": ident, "payload": w.payload(0).hex(), "labelmsm": 1 + (k & 1)}


def e_all(tier, shard, nshards):
    yield from e_single(tier, shard, nshards)
    yield from e_full64(tier, shard, nshards)


def _short(c):
    c = dict(c)
    if len(c.get("payload", "")) > 160:
        c["payload"] = c["payload"][:160] + "..."
    return c


SUBS = [
    Sub(
        "mask_decoding",
        o_masks,
        plan=plan_masks,
        enum=e_all,
        rule="see property rule; single-bit satellite x signal masks enumerated per constellation",
        need={"empty-sat-mask": 1, "empty-sig-mask": 1, "sat-id-64": 1, "sig-id-32": 1, "reserved-or-out-of-range-id": 1, "cell-with-undefined-signal": 1, "cells>=10": 1, "cell-mask-exactly-64-bits": 1, "after-failed-msm-parse": 1, "diagnostics-on": 1},
        sample=_short,
    ),
]
