"""C11 - socket reads are independent of how the network segments the data."""

import io

from hypothesis import strategies as st

from pv import streams
from pv.core import Fail, Res, Sub
from pv.doubles import ScriptedSocket

PROPERTY = "C11"
RULE = (
    "(1) histories over SocketWrapper(ScriptedSocket): generated sequences of peer_sends(bytes) / peer_times_out / peer_oserror / "
    "peer_closes / read(n) / readline, bufsize in {1,2,3,7,64,512,4096}, the constructor's initial receive included; invariant after "
    "every step: delivered ++ wrapper.buffer == everything recv() handed out; each read(n) returns <= n bytes and fewer only if a "
    "close / timeout / OS error occurred during that call; readline returns a prefix of the remaining stream ending at the first CRLF "
    "or at such an event. (2) differential: RTCMReader over a scripted socket with a generated partition and bufsize returns the same "
    "raw frames and attributes as RTCMReader over BytesIO of the same bytes. Non-trivial: (1) a refill that straddles a read AND a "
    "timeout with a non-empty buffer; (2) >= 2 frames and >= 1 cut inside a frame."
)
ASSUMPTIONS = [
    "scripted sockets stand for the kernel: timeouts / OS errors are exceptions from recv()",
    "the reader differential uses well-formed streams without timeouts (after a timeout inside a frame the reader, not the wrapper, drops the frame)",
]

BUFS = [1, 2, 3, 7, 64, 512, 4096]


def o_hist(case):
    from pyrtcm.socketwrapper import SocketWrapper

    sock = ScriptedSocket([bytes.fromhex(e[1]) if e[0] == "send" else e[0] for e in case["init"]])
    sock.empty_means = case["empty"]
    sock.budget = 200000
    cls = set()
    try:
        w = SocketWrapper(sock, bufsize=case["bufsize"])
        delivered = bytearray()

        def inv(step):
            if bytes(delivered) + bytes(w.buffer) != bytes(sock.handed):
                lost = len(sock.handed) - len(delivered) - len(w.buffer)
                raise Fail("bytes-lost-duplicated-or-reordered", f"after step {step}: delivered {len(delivered)} + buffered {len(w.buffer)} != received {len(sock.handed)} (difference {lost}) or content differs; bufsize {case['bufsize']}")

        inv("constructor")
        for k, op in enumerate(case["ops"]):
            kind = op[0]
            if kind == "send":
                sock.push(bytes.fromhex(op[1]))
                continue
            if kind in ("timeout", "oserror", "close"):
                sock.push(kind)
                continue
            l0 = len(sock.log)
            buf0 = len(w.buffer)
            if kind == "read":
                n = op[1]
                r = w.read(n)
                if not isinstance(r, (bytes, bytearray)):
                    raise Fail("read-type", f"read({n}) returned {type(r).__name__}")
                events = [o for _, o in sock.log[l0:]]
                bad = [o for o in events if o in ("eof", "timeout", "oserror")]
                if len(r) > n:
                    raise Fail("read-returns-more-than-requested", f"read({n}) returned {len(r)} bytes")
                if len(r) < n and not bad:
                    raise Fail("short-read-without-cause", f"read({n}) returned {len(r)} bytes although no close / timeout / error occurred (buffer held {buf0}, bufsize {case['bufsize']})")
                delivered += r
                if events and len(r) == n and buf0 < n and buf0 > 0:
                    cls.add("refill-straddles-read")
                if "timeout" in events and buf0 > 0:
                    cls.add("timeout-with-nonempty-buffer")
                if "oserror" in events:
                    cls.add("oserror-during-read")
                if "eof" in events:
                    cls.add("eof-during-read")
            else:
                r = w.readline()
                events = [o for _, o in sock.log[l0:]]
                bad = [o for o in events if o in ("eof", "timeout", "oserror")]
                delivered += r
                pos = r.find(b"\r\n")
                if pos >= 0 and pos != len(r) - 2:
                    raise Fail("readline-past-crlf", f"readline returned {r[:40]!r}.. which continues past the first CRLF")
                if pos < 0 and not bad:
                    raise Fail("readline-short-without-cause", f"readline returned {len(r)} bytes without CRLF although no close / timeout / error occurred")
                cls.add("readline-complete" if pos >= 0 else "readline-cut-by-event")
            inv(f"{k}:{op}")
    finally:
        sock.close()
    nt = "refill-straddles-read" in cls and "timeout-with-nonempty-buffer" in cls
    return Res(nontrivial=nt, classes=sorted(cls) + [f"bufsize{case['bufsize']}"], evals=len(case["ops"]) + 1)


def _payloads():
    return st.one_of(st.binary(min_size=1, max_size=40), st.binary(min_size=1, max_size=600), st.sampled_from([b"\r\n", b"\r", b"\n", b"abc\r\n", b"$GNGGA,1\r\nxyz"])).map(lambda b: ["send", b.hex()])


@st.composite
def s_hist(draw, tier):
    bufsize = draw(st.sampled_from(BUFS))
    ev = st.one_of(_payloads(), _payloads(), st.sampled_from([["timeout"], ["oserror"]]))
    init = draw(st.lists(ev, min_size=0, max_size=3))
    nread = st.one_of(st.integers(0, 70), st.sampled_from([1, 1, 2, 3, bufsize - 1 if bufsize > 1 else 1, bufsize, bufsize + 1]), st.integers(0, 700))
    op = st.one_of(_payloads(), _payloads(), nread.map(lambda n: ["read", n]), nread.map(lambda n: ["read", n]), nread.map(lambda n: ["read", n]), st.just(["readline"]), st.sampled_from([["timeout"], ["timeout"], ["oserror"]]))
    ops = draw(st.lists(op, min_size=1, max_size=40))
    if draw(st.integers(0, 3)) == 0:
        k = draw(st.integers(0, len(ops)))
        ops = ops[:k] + [["close"]] + ops[k:]
    return {"bufsize": bufsize, "init": init, "ops": ops, "empty": draw(st.sampled_from(["timeout", "timeout", "eof"]))}


# ------------------------------------------------------------------ reader(socket) == reader(file)
def pub(m):
    return None if m is None else [(k, v) for k, v in m.__dict__.items() if not k.startswith("_")]


def o_diff(case):
    from pyrtcm import RTCMReader

    items = case["items"]
    data = streams.join(items)
    ref = [(raw, pub(p)) for raw, p in RTCMReader(io.BytesIO(data), quitonerror=case["qoe"], labelmsm=case["labelmsm"])]
    sock = ScriptedSocket(streams.split(data, case["cuts"]) + ["close"])
    sock.budget = 4 * len(data) + 64
    try:
        got = [(raw, pub(p)) for raw, p in RTCMReader(sock, quitonerror=case["qoe"], labelmsm=case["labelmsm"], bufsize=case["bufsize"])]
    finally:
        sock.close()
    if [r for r, _ in got] != [r for r, _ in ref]:
        raise Fail("socket-differs-from-file", f"reader over the socket returned {len(got)} frames, over the file {len(ref)} (or different bytes); bufsize {case['bufsize']} cuts {case['cuts'][:10]}")
    if got != ref:
        raise Fail("socket-differs-from-file", "same raw frames but different parsed attributes")
    cls = [f"bufsize{case['bufsize']}"]
    off = 0
    cut_in_frame = False
    for i in items:
        ln = len(i["b"]) // 2
        if i["k"] in ("frame", "damaged") and any(off < c < off + ln for c in case["cuts"]):
            cut_in_frame = True
        off += ln
    if cut_in_frame:
        cls.append("cut-inside-frame")
    if any(i["k"] == "nmea" for i in items):
        cls.append("has-nmea")
    return Res(nontrivial=len(ref) >= 2 and cut_in_frame, classes=cls, evals=2)


@st.composite
def s_diff(draw, tier):
    items = draw(st.lists(st.one_of(streams.wellformed_items("small", fillers_ok=False), streams.damaged_frames("small")), min_size=1, max_size=10))
    n = sum(len(i["b"]) // 2 for i in items)
    return {"items": items, "cuts": draw(streams.partitions(n)), "bufsize": draw(st.sampled_from(BUFS)), "qoe": draw(st.sampled_from([0, 1])), "labelmsm": draw(st.sampled_from([1, 2]))}


def _short(c):
    c = dict(c)
    if "items" in c:
        c["items"] = [{**i, "b": i["b"][:40] + ("..." if len(i["b"]) > 40 else "")} for i in c["items"]]
    if "ops" in c:
        c["ops"] = [[o[0], (o[1][:40] + "...") if isinstance(o[1], str) and len(o[1]) > 40 else o[1]] if len(o) > 1 else o for o in c["ops"]]
    return c


SUBS = [
    Sub("wrapper_histories", o_hist, strategy=s_hist, examples=(600, 8000), rule="refill straddling a read and a timeout with a non-empty buffer in one history", need={"refill-straddles-read": 1, "timeout-with-nonempty-buffer": 1, "readline-complete": 1, "readline-cut-by-event": 1, "eof-during-read": 1}, sample=_short),
    Sub("reader_socket_equals_file", o_diff, strategy=s_diff, examples=(120, 3000), rule=">= 2 frames and a cut inside a frame", need={"cut-inside-frame": 1}, sample=_short),
]
