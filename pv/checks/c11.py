"""C11 - socket reads are independent of how the network segments the data."""

import io

from hypothesis import strategies as st

from pv import core, streams
from pv.core import Fail, Res, Sub
from pv.doubles import ScriptedSocket

PROPERTY = "C11"
RULE = (
    "(1) histories over SocketWrapper(ScriptedSocket): generated sequences of peer_sends(bytes) / peer_times_out / peer_oserror / "
    "peer_closes / read(n) / readline, bufsize in {1,2,3,7,64,512,4096}, the constructor's initial receive included; invariant after "
    "every step: delivered ++ wrapper.buffer == everything recv() handed out; each read(n) returns <= n bytes and fewer only if a "
    "close / timeout / OS error occurred during that call; readline returns a prefix of the remaining stream ending at the first CRLF "
    "or at such an event. (2) differential: RTCMReader over a scripted socket with a generated partition and bufsize returns the same "
    "raw frames and attributes as RTCMReader over BytesIO of the same bytes. Non-trivial: (1) a refill that straddles a read AND a "
    "timeout with a non-empty buffer; (2) >= 2 frames and >= 1 cut inside a frame."
)
ASSUMPTIONS = [
    "scripted sockets stand for the kernel: timeouts / OS errors are exceptions from recv()",
    "the reader differential uses well-formed streams without timeouts (after a timeout inside a frame the reader, not the wrapper, drops the frame)",
]

BUFS = [1, 2, 3, 7, 64, 512, 4096]


class HistRunner:
    """the real SocketWrapper over a ScriptedSocket, driven one operation at a time with the history invariant
    evaluated after every step (used by the op-list oracle and by the Hypothesis state machine alike)"""

    def __init__(self, bufsize, init, empty, peek=True):
        from pyrtcm.socketwrapper import SocketWrapper

        # peek=False: the harness never looks at the wrapper's buffer (looking is an API call too, and may tidy up
        # internal state): delivered bytes must be a prefix of what was received after every step, and equal to it
        # once the peer has closed and the application has read everything
        self.peek = peek
        self.bufsize = bufsize
        self.sock = ScriptedSocket([bytes.fromhex(e[1]) if e[0] == "send" else e[0] for e in init])
        self.sock.empty_means = empty
        self.sock.budget = 200000
        self.cls = set()
        self.delivered = bytearray()
        self.k = 0
        try:
            self.w = SocketWrapper(self.sock, bufsize=bufsize)
            self.inv("constructor")
        except BaseException:
            self.sock.close()
            raise

    def close(self):
        self.sock.close()

    def inv(self, step):
        w, sock = self.w, self.sock
        if not self.peek:
            if not bytes(sock.handed).startswith(bytes(self.delivered)):
                raise Fail("bytes-lost-duplicated-or-reordered", f"after step {step}: the {len(self.delivered)} delivered bytes are not the first bytes of the {len(sock.handed)} received; bufsize {self.bufsize}")
            return
        if bytes(self.delivered) + bytes(w.buffer) != bytes(sock.handed):
            lost = len(sock.handed) - len(self.delivered) - len(w.buffer)
            raise Fail("bytes-lost-duplicated-or-reordered", f"after step {step}: delivered {len(self.delivered)} + buffered {len(w.buffer)} != received {len(sock.handed)} (difference {lost}) or content differs; bufsize {self.bufsize}")

    def step(self, op):
        w, sock, cls = self.w, self.sock, self.cls
        k = self.k
        self.k += 1
        kind = op[0]
        core.note_input(16 + (op[1] if kind == "read" else 0) // 64)
        if kind == "send":
            sock.push(bytes.fromhex(op[1]))
            return
        if kind in ("timeout", "close") or kind.startswith("oserror"):
            sock.push(kind)
            return
        if kind == "write":
            # the connection is full duplex (e.g. an NTRIP client sending GGA sentences): writing must not disturb
            # what has been received
            w.write(bytes.fromhex(op[1]))
            self.cls.add("write-between-reads")
            self.inv(f"{k}:write")
            return
        l0 = len(sock.log)
        buf0 = len(w.buffer) if self.peek else len(sock.handed) - len(self.delivered)
        h0 = len(sock.handed)
        if kind == "read":
            n = op[1]
            r = w.read(n)
            if not isinstance(r, (bytes, bytearray)):
                raise Fail("read-type", f"read({n}) returned {type(r).__name__}")
            events = [o for _, o in sock.log[l0:]]
            bad = [o for o in events if o in ("eof", "timeout", "oserror")]
            if len(r) > n:
                raise Fail("read-returns-more-than-requested", f"read({n}) returned {len(r)} bytes")
            if len(r) < n and buf0 + len(sock.handed) - h0 >= n:
                # "fewer only when the peer has closed or a timeout occurs": the event must be the reason for the
                # shortfall - here the wrapper held the requested count and still came back short
                raise Fail("short-read-although-enough-bytes-held", f"read({n}) returned {len(r)} bytes although the wrapper held {buf0} and received {len(sock.handed) - h0} more before the {bad[:1]} (bufsize {self.bufsize})")
            if len(r) < n and not bad:
                raise Fail("short-read-without-cause", f"read({n}) returned {len(r)} bytes although no close / timeout / error occurred (buffer held {buf0}, bufsize {self.bufsize})")
            self.delivered += r
            if events and len(r) == n and buf0 < n and buf0 > 0:
                cls.add("refill-straddles-read")
            if "timeout" in events and buf0 > 0:
                cls.add("timeout-with-nonempty-buffer")
            if "oserror" in events:
                cls.add("oserror-during-read")
            if "eof" in events:
                cls.add("eof-during-read")
        else:
            r = w.readline()
            events = [o for _, o in sock.log[l0:]]
            bad = [o for o in events if o in ("eof", "timeout", "oserror")]
            self.delivered += r
            pos = r.find(b"\r\n")
            if pos >= 0 and pos != len(r) - 2:
                raise Fail("readline-past-crlf", f"readline returned {r[:40]!r}.. which continues past the first CRLF")
            if pos < 0 and not bad:
                raise Fail("readline-short-without-cause", f"readline returned {len(r)} bytes without CRLF although no close / timeout / error occurred")
            cls.add("readline-complete" if pos >= 0 else "readline-cut-by-event")
        self.inv(f"{k}:{op}")


def o_hist(case):
    if "machine_stats" in case:
        ms = case["machine_stats"]
        return Res(False, ["state-machine-run"], evals=ms["steps"])
    h = HistRunner(case["bufsize"], case["init"], case["empty"], peek=case.get("peek", True))
    try:
        for op in case["ops"]:
            h.step(op)
        if not h.peek:
            # the peer closes; the application reads until nothing comes any more: everything received was delivered
            h.sock.push("close")
            # (byte by byte: a read for more than is left comes back empty and leaves the rest buffered)
            for _ in range(sum(len(o[1]) // 2 for o in case["init"] + case["ops"] if o[0] == "send") + 64):
                r = h.w.read(1)
                h.delivered += r
                if not r:
                    break
            if bytes(h.delivered) != bytes(h.sock.handed):
                raise Fail("bytes-lost-duplicated-or-reordered", f"after the peer closed and everything was read: delivered {len(h.delivered)} bytes, received {len(h.sock.handed)} (or content differs); bufsize {case['bufsize']}, the buffer was never inspected")
            h.cls.add("buffer-never-inspected")
    finally:
        h.close()
    cls = h.cls
    nt = "refill-straddles-read" in cls and "timeout-with-nonempty-buffer" in cls
    extra = [f"long-stream>={case['long'] // 1024}KiB"] if case.get("long") else []
    return Res(nontrivial=nt, classes=sorted(cls) + [f"bufsize{case['bufsize']}"] + extra, evals=len(case["ops"]) + 1)


# ------------------------------------------------------------------ the same histories as a Hypothesis state machine
def e_machine(tier, shard, nshards):
    """RuleBasedStateMachine over the real wrapper: rules are peer / reader operations with generated arguments, the
    invariant runs after every step, Hypothesis shrinks the whole rule sequence.  The machine records the history it
    executes; a failing (shrunk) history is handed to the op-list oracle above, so it is bucketed and replayable."""
    import os

    import hypothesis
    from hypothesis import settings
    from hypothesis.stateful import RuleBasedStateMachine, initialize, invariant, precondition, rule, run_state_machine_as_test

    from pv import core

    stats = {"machines": 0, "steps": 0, "nontrivial": 0}
    failing = {"case": None}

    class WrapperMachine(RuleBasedStateMachine):
        def __init__(self):
            super().__init__()
            self.h = None
            self.case = None

        @initialize(bufsize=st.sampled_from(BUFS), init=st.lists(st.one_of(_payloads(), st.sampled_from([["timeout"], ["oserror"]])), max_size=3), empty=st.sampled_from(["timeout", "eof"]))
        def start(self, bufsize, init, empty):
            self.case = {"bufsize": bufsize, "init": init, "ops": [], "empty": empty}
            stats["machines"] += 1
            self.h = HistRunner(bufsize, init, empty)

        def _do(self, op):
            self.case["ops"].append(op)
            stats["steps"] += 1
            try:
                self.h.step(op)
            except Fail:
                failing["case"] = {**self.case, "ops": list(self.case["ops"])}
                raise

        @rule(data=st.one_of(st.binary(min_size=1, max_size=40), st.binary(min_size=1, max_size=600), st.sampled_from([b"\r\n", b"\r", b"\n", b"abc\r\n"]), _CRLF))
        def peer_sends(self, data):
            self._do(["send", data.hex()])

        @rule()
        def peer_times_out(self):
            self._do(["timeout"])

        @rule(kind=st.sampled_from(["oserror", "oserror:connreset", "oserror:brokenpipe", "oserror:connaborted", "oserror:blocking", "oserror:interrupted"]))
        def peer_oserror(self, kind):
            self._do([kind])

        @precondition(lambda self: self.case is not None and ["close"] not in self.case["ops"])
        @rule()
        def peer_closes(self):
            self._do(["close"])

        @rule(n=st.one_of(st.integers(0, 70), st.sampled_from([1, 2, 3, 7, 8, 63, 64, 65, 511, 512, 513]), st.integers(0, 700)))
        def read(self, n):
            self._do(["read", n])

        @rule()
        def readline(self):
            self._do(["readline"])

        @invariant()
        def conserved(self):
            if self.h is not None:
                try:
                    self.h.inv("invariant")
                except Fail:
                    failing["case"] = {**self.case, "ops": list(self.case["ops"])}
                    raise

        def teardown(self):
            if self.h is not None:
                if "refill-straddles-read" in self.h.cls and "timeout-with-nonempty-buffer" in self.h.cls:
                    stats["nontrivial"] += 1
                self.h.close()

    vseed = int(os.environ.get("VERIF_SEED", "1") or "1")
    n = 40 if tier == "quick" else 600
    cfg = settings(max_examples=n, stateful_step_count=40, database=None, deadline=None, report_multiple_bugs=False, print_blob=False, suppress_health_check=list(hypothesis.HealthCheck))
    try:
        run_state_machine_as_test(hypothesis.seed(core.derive_seed(vseed, "c11-machine", shard))(WrapperMachine), settings=cfg)
    except Fail:
        pass
    except Exception:  # pylint: disable=broad-except
        if failing["case"] is None:
            raise
    yield {"machine_stats": stats}
    if failing["case"] is not None:
        yield failing["case"]


def e_long(tier, shard, nshards):
    """one wrapper instance fed far more than any plausible internal threshold (buffer compaction, offsets)"""
    import hashlib

    sizes = [96 * 1024, 300 * 1024, 1200 * 1024, 2500 * 1024] if tier == "quick" else [96 * 1024, 300 * 1024, 1200 * 1024, 2500 * 1024, 9000 * 1024]
    k = 0
    for total in sizes:
        for bufsize, seg, rd in ((4096, 1500, 997), (512, 4000, 61), (4096, 9000, 4096), (64, 700, 1), (4096, 30000, 65537), (4096, 50000, 70001)):
            k += 1
            if k % nshards != shard:
                continue
            if rd == 1 and total > 300 * 1024:
                continue
            if rd < 900 and total > 1200 * 1024:
                continue
            ops = []
            sent = 0
            j = 0
            while sent < total:
                blk = hashlib.blake2b(f"{total}|{j}".encode(), digest_size=64).digest() * (seg // 64 + 1)
                ops.append(["send", blk[:seg].hex()])
                sent += seg
                j += 1
                for _ in range(max(1, seg // max(rd, 1) if rd > 1 else 40)):
                    ops.append(["read", rd])
                if j % 7 == 0:
                    ops.append(["timeout"])
                    ops.append(["read", rd + 3])
            ops.append(["close"])
            ops += [["read", rd]] * 50
            yield {"bufsize": bufsize, "init": [], "ops": ops, "empty": "timeout", "long": total}


# text dense in carriage returns and line feeds: every way a CR LF pair can be preceded, split or doubled
_CRLF = st.lists(st.sampled_from([b"\r", b"\r", b"\n", b"\r\n", b"\r\r\n", b"\n\r", b"a", b"bc", b"$G", b"\xd3"]), min_size=1, max_size=8).map(b"".join)


def _payloads():
    return st.one_of(
        _CRLF,
        st.sampled_from([b"x" * 5000, b"$GP" + b"A" * 4200, b"\r" * 4100]),  # long runs without a CR LF pair
st.binary(min_size=1, max_size=40), st.binary(min_size=1, max_size=600), st.sampled_from([b"\r\n", b"\r", b"\n", b"abc\r\n", b"$GNGGA,1\r\nxyz"]),
    ).map(lambda b: ["send", b.hex()])


@st.composite
def s_hist(draw, tier):
    bufsize = draw(st.sampled_from(BUFS))
    ev = st.one_of(_payloads(), _payloads(), st.sampled_from([["timeout"], ["oserror"]]))
    init = draw(st.lists(ev, min_size=0, max_size=3))
    nread = st.one_of(st.integers(0, 70), st.sampled_from([1, 1, 2, 3, bufsize - 1 if bufsize > 1 else 1, bufsize, bufsize + 1]), st.integers(0, 700))
    op = st.one_of(_payloads(), _payloads(), nread.map(lambda n: ["read", n]), nread.map(lambda n: ["read", n]), nread.map(lambda n: ["read", n]), st.just(["readline"]), st.just(["write", b"$GPGGA,1*00\r\n".hex()]), st.sampled_from([["timeout"], ["timeout"], ["oserror"], ["oserror:connreset"], ["oserror:brokenpipe"], ["oserror:connaborted"], ["oserror:blocking"], ["oserror:interrupted"]]))
    ops = draw(st.lists(op, min_size=1, max_size=40))
    if draw(st.integers(0, 3)) == 0:
        k = draw(st.integers(0, len(ops)))
        ops = ops[:k] + [["close"]] + ops[k:]
    return {"bufsize": bufsize, "init": init, "ops": ops, "empty": draw(st.sampled_from(["timeout", "timeout", "eof"])), "peek": draw(st.sampled_from([True, True, False]))}


# ------------------------------------------------------------------ reader(socket) == reader(file)
def pub(m):
    return None if m is None else [(k, v) for k, v in m.__dict__.items() if not k.startswith("_")]


def o_diff(case):
    from pyrtcm import RTCMReader

    items = case["items"]
    data = streams.join(items)
    val = case.get("validate", 1)
    ref = [(raw, pub(p)) for raw, p in RTCMReader(io.BytesIO(data), quitonerror=case["qoe"], labelmsm=case["labelmsm"], validate=val)]
    wire, kw = data, {}
    if case.get("enc"):
        # the same bytes as an HTTP chunked body (C12 judges the de-chunking itself; here: the messages are the same)
        from pv.checks import c12

        step = max(1, case.get("chunk", 64), len(data) // 1500 + 1)
        wire, _ = c12.encode({"chunks": [data[i : i + step].hex() for i in range(0, len(data), step)], "enc": case["enc"], "hexcase": [0, 1], "terminator": True})
        kw = {"encoding": c12.ENC[case["enc"]]}
    sock = ScriptedSocket(streams.split(wire, [c for c in case["cuts"] if 0 < c < len(wire)]) + ["close"])
    sock.budget = 4 * len(wire) + 64
    try:
        if case.get("prewrap"):
            # the application wraps the socket itself and hands the (public) wrapper to the reader
            from pyrtcm.socketwrapper import SocketWrapper

            rdr = RTCMReader(SocketWrapper(sock, bufsize=case["bufsize"], **kw), quitonerror=case["qoe"], labelmsm=case["labelmsm"], validate=val)
        else:
            rdr = RTCMReader(sock, quitonerror=case["qoe"], labelmsm=case["labelmsm"], bufsize=case["bufsize"], validate=val, **kw)
        if case.get("handover"):
            # the application reads a few messages, then builds a second reader over the stream the first one holds
            # (reader.datastream) - e.g. to go on with other options: what the first one had received is not lost
            got = []
            it = iter(rdr)
            for _ in range(case["handover"]):
                try:
                    raw, p = next(it)
                except StopIteration:
                    break
                got.append((raw, pub(p)))
            rdr2 = RTCMReader(rdr.datastream, quitonerror=case["qoe"], labelmsm=case["labelmsm"], validate=val, **({} if case.get("prewrap") else {"bufsize": case["bufsize"]}))
            got += [(raw, pub(p)) for raw, p in rdr2]
        else:
            got = [(raw, pub(p)) for raw, p in rdr]
    finally:
        sock.close()
    if [r for r, _ in got] != [r for r, _ in ref]:
        raise Fail("socket-differs-from-file", f"reader over the socket returned {len(got)} frames, over the file {len(ref)} (or different bytes); bufsize {case['bufsize']} cuts {case['cuts'][:10]}")
    if got != ref:
        raise Fail("socket-differs-from-file", "same raw frames but different parsed attributes")
    cls = [f"bufsize{case['bufsize']}"] + (["chunked-" + case["enc"]] if case.get("enc") else []) + (["socket-wrapped-by-caller"] if case.get("prewrap") else [])
    if any(i.get("aligned") for i in items):
        cls.append("item-aligned-to-bufsize")
    if case.get("repeated"):
        cls.append("highly-compressible-chunk")
    if case.get("handover"):
        cls.append("second-reader-over-the-first-one's-datastream")
    if case["bufsize"] > 1 and len(case["cuts"]) >= 2 and all(c % case["bufsize"] == 0 for c in case["cuts"]):
        cls.append("every-receive-fills-the-buffer")
    off = 0
    cut_in_frame = False
    for i in items:
        ln = len(i["b"]) // 2
        if i["k"] in ("frame", "damaged") and any(off < c < off + ln for c in case["cuts"]):
            cut_in_frame = True
        off += ln
    if cut_in_frame:
        cls.append("cut-inside-frame")
    if any(i["k"] == "nmea" for i in items):
        cls.append("has-nmea")
    return Res(nontrivial=len(ref) >= 2 and cut_in_frame, classes=cls, evals=2)


@st.composite
def s_diff(draw, tier):
    items = streams.flatten(draw(st.lists(st.one_of(streams.wellformed_items("small", fillers_ok=False), streams.damaged_frames("small")), min_size=1, max_size=10)))
    bufsize = draw(st.sampled_from(BUFS))
    if draw(st.integers(0, 3)) == 0:
        items = draw(streams.align_to(items, bufsize))
    n = sum(len(i["b"]) // 2 for i in items)
    extra = {"prewrap": draw(st.integers(0, 3)) == 0}
    if draw(st.integers(0, 3)) == 0:
        extra.update(enc=draw(st.sampled_from(["none", "none", "gzip", "compress", "deflate"])), chunk=draw(st.sampled_from([5, 31, 64, 700])))
        if extra["enc"] != "none" and draw(st.integers(0, 2)) == 0 and 0 < n <= 400:
            # the same few items broadcast again and again inside one chunk: compresses several hundred to one
            items = items * min(draw(st.sampled_from([40, 150, 400])), 40000 // n)
            n = sum(len(i["b"]) // 2 for i in items)
            extra["chunk"] = 50000
            extra["repeated"] = True
        n = 3 * n + 64
    mode = draw(st.integers(0, 5))
    if mode <= 1 and "enc" not in extra:
        # one item per segment (a sender that writes message by message), or one segment per read request of the reader
        cuts = streams.boundaries(items) if mode == 0 else streams.structure_cuts(items)
    elif mode == 2 and bufsize > 1:
        cuts = streams.modulus_cuts(n, bufsize)  # every receive fills the buffer exactly
    else:
        cuts = draw(streams.partitions(n))
    extra["validate"] = draw(st.sampled_from([1, 1, 0]))
    if "enc" not in extra and draw(st.integers(0, 3)) == 0:
        extra["handover"] = draw(st.integers(1, 3))
    return {**extra, "items": items, "cuts": cuts, "bufsize": bufsize, "qoe": draw(st.sampled_from([0, 1])), "labelmsm": draw(st.sampled_from([1, 2]))}


# ------------------------------------------------------------------ a stall inside a frame costs at most that frame
def o_stall(case):
    """Frames without any sync byte after the preamble (so that a skipped remainder cannot start another item), cut
    into segments with timeouts / transient errors between some of them; the application keeps polling. A frame that
    no stall falls strictly inside is delivered, exactly once and in order - whatever happened to earlier frames."""
    from pyrtcm import RTCMReader

    frames = [streams.inert_frame(bytes.fromhex(h) + bytes([k])) for k, h in enumerate(case["frames"])]  # all distinct
    gaps = [bytes(b for b in bytes.fromhex(g) if b not in streams.SYNC) for g in case["gaps"]]
    data = bytearray()
    spans = []
    for k, f in enumerate(frames):
        data += gaps[k % len(gaps)] if gaps else b""
        spans.append((len(data), len(data) + len(f)))
        data += f
    data = bytes(data)
    cuts = sorted(set(c for c in case["cuts"] if 0 < c < len(data)))
    if case.get("structure"):
        cuts = sorted(set(cuts) | set(c for a, b in spans for c in (a, a + 1, a + 2, a + 3, b - 3, b) if 0 < c < len(data)))
    stalls = [c for k, c in enumerate(cuts) if case["stall"][k % len(case["stall"])]] if case["stall"] else []
    events = []
    for sg, c in zip(streams.split(data, cuts), cuts + [None]):
        events.append(sg)
        if c in stalls:
            events.append(["timeout", "oserror:blocking", "timeout"][case["stall"][cuts.index(c) % len(case["stall"])] - 1])
    sock = ScriptedSocket(events + ["close"])
    sock.budget = 6 * len(data) + 8 * len(events) + 256
    got = []
    try:
        rdr = RTCMReader(sock, quitonerror=case["qoe"], bufsize=case["bufsize"], parsed=case["parsed"])
        guard = 0
        while True:
            guard += 1
            if guard > 4 * len(data) + 4 * len(events) + 64:
                raise Fail("non-termination", f"application polled {guard} times for {len(data)} bytes")
            raw, _ = rdr.read()
            if raw is None:
                if sock.closed_by_peer:
                    break
                continue
            got.append(bytes(raw))
    finally:
        sock.close()
    j = 0
    delivered = [False] * len(frames)
    for n, raw in enumerate(got):
        while j < len(frames) and frames[j] != raw:
            j += 1
        if j == len(frames):
            raise Fail("returned-not-sent-in-order", f"result {n} ({raw.hex()[:40]}..) is not the next frame sent (duplicate, reordered or altered)")
        delivered[j] = True
        j += 1
    hit = [any(a < c < b for c in stalls) for a, b in spans]
    lost = [k for k in range(len(frames)) if not delivered[k] and not hit[k]]
    if lost:
        k = lost[0]
        raise Fail("frame-lost-without-a-stall-inside-it", f"frame #{k} of {len(frames)} (bytes {spans[k][0]}..{spans[k][1]}) was never returned although no timeout fell inside it; stalls at {stalls[:8]}, {sum(hit)} frame(s) hit by a stall, bufsize {case['bufsize']}")
    cls = [f"bufsize{case['bufsize']}"]
    if any(hit):
        cls.append("stall-inside-a-frame")
    if any(h and any(not x for x in hit[k + 1 :]) for k, h in enumerate(hit)):
        cls.append("frames-after-a-stalled-frame")
    if any(c in stalls for a, b in spans for c in (a + 1, a + 2, a + 3, b - 3)):
        cls.append("stall-at-a-read-boundary-of-the-reader")
    return Res(nontrivial="frames-after-a-stalled-frame" in cls, classes=cls, evals=len(frames))


@st.composite
def s_stall(draw, tier):
    nf = draw(st.integers(2, 8))
    return {
        "frames": [draw(st.binary(min_size=2, max_size=4)).hex() for _ in range(nf)],
        "gaps": [draw(st.binary(min_size=0, max_size=6)).hex() for _ in range(draw(st.integers(1, 3)))],
        "cuts": draw(streams.partitions(nf * 20)),
        "structure": draw(st.booleans()),
        "stall": draw(st.lists(st.sampled_from([0, 0, 0, 1, 2, 3]), min_size=1, max_size=12)),
        "bufsize": draw(st.sampled_from(BUFS)),
        "qoe": draw(st.sampled_from([0, 1])),
        "parsed": draw(st.booleans()),
    }


def _short(c):
    c = dict(c)
    if c.get("long"):
        return {"long": c["long"], "bufsize": c["bufsize"], "ops": f"{len(c['ops'])} operations: sends, reads, periodic timeouts, close"}
    if "items" in c:
        c["items"] = [{**i, "b": i["b"][:40] + ("..." if len(i["b"]) > 40 else "")} for i in c["items"]]
    if "ops" in c:
        c["ops"] = [[o[0], (o[1][:40] + "...") if isinstance(o[1], str) and len(o[1]) > 40 else o[1]] if len(o) > 1 else o for o in c["ops"]]
    return c


SUBS = [
    Sub("stall_costs_at_most_that_frame", o_stall, strategy=s_stall, examples=(150, 4000), rule="a frame hit by a stall is followed by frames that are not", need={"stall-inside-a-frame": 1, "frames-after-a-stalled-frame": 1, "stall-at-a-read-boundary-of-the-reader": 1}, sample=_short),
    Sub("wrapper_histories", o_hist, strategy=s_hist, enum=e_long, examples=(600, 8000), rule="refill straddling a read and a timeout with a non-empty buffer in one history", need={"write-between-reads": 1, "refill-straddles-read": 1, "timeout-with-nonempty-buffer": 1, "readline-complete": 1, "readline-cut-by-event": 1, "eof-during-read": 1}, sample=_short),
    Sub("wrapper_state_machine", o_hist, enum=e_machine, rule="RuleBasedStateMachine runs over the same operations; evaluations = rule steps executed; failing histories are re-judged by the op-list oracle", sample=_short),
    Sub("reader_socket_equals_file", o_diff, strategy=s_diff, examples=(120, 3000), rule=">= 2 frames and a cut inside a frame", need={"cut-inside-frame": 1, "chunked-gzip": 1, "chunked-none": 1, "socket-wrapped-by-caller": 1}, sample=_short),
]
