"""C08 - CRC-24Q is computed correctly; all guaranteed-detectable damage is rejected."""

import hashlib

from hypothesis import strategies as st

from pv import framing
from pv.core import Fail, Res, Sub, digest
from pv import gen

PROPERTY = "C08"
RULE = (
    "byte strings 0..1029 (random / constant / single-set-bit) judged against two independent CRC-24Q "
    "references; valid frames of all length classes x damage patterns (every single-bit position, 2-bit pairs, "
    "odd weight 3..31, bursts <= 24 bits at every start position) must raise RTCMParseError; with validate=0 "
    "the CRC bytes must not influence the result. Non-trivial: distinct (data) of length > 6 for the value check, "
    "distinct (frame, pattern) with frame length > 6 for the detection check."
)
ASSUMPTIONS = [
    "CRC references: GF(2) long division on ints and a generated MSB-first table, both checked against the catalogue value 0xCDE703",
    "single-bit and burst-start spaces are enumerated completely per generated frame; frames themselves are sampled",
]


def _lib():
    from pyrtcm import RTCMReader
    from pyrtcm.exceptions import RTCMParseError
    from pyrtcm.rtcmhelpers import calc_crc24q, crc2bytes

    return RTCMReader, RTCMParseError, calc_crc24q, crc2bytes


# ------------------------------------------------------------------ value
def o_value(case):
    _, _, calc, c2b = _lib()
    data = bytes.fromhex(case["data"])
    want = framing.crc_div(data)
    if framing.crc_table(data) != want:
        raise AssertionError("harness: CRC references disagree")
    got = calc(data)
    if got != want:
        raise Fail("crc-value", f"calc_crc24q({data.hex()[:80]}..len {len(data)}) = {got:#x}, reference {want:#x}")
    tb = c2b(data)
    if tb != want.to_bytes(3, "big") or not isinstance(tb, bytes):
        raise Fail("crc2bytes", f"crc2bytes = {tb!r}, reference {want.to_bytes(3, 'big')!r}")
    z = calc(data + tb)
    if z != 0:
        raise Fail("crc-appended-nonzero", f"calc_crc24q(x + crc2bytes(x)) = {z:#x} for len {len(data)}")
    return Res(nontrivial=len(data) > 6, classes=[_lencls(len(data))])


def _lencls(n):
    if n == 0:
        return "len0"
    if n <= 6:
        return "len1-6"
    if n < 256:
        return "len7-255"
    if n < 1029:
        return "len256-1028"
    return "len1029"


def s_value(tier):
    lens = st.one_of(st.integers(0, 1029), st.sampled_from([0, 1, 2, 3, 5, 6, 7, 255, 256, 257, 1028, 1029]))
    rnd = lens.flatmap(lambda n: st.binary(min_size=n, max_size=n))
    const = st.builds(lambda n, b: bytes([b]) * n, lens, st.sampled_from([0, 0xFF, 0xD3, 0x80, 0x01]))
    # byte strings whose remainder is already zero (a body with its checksum appended; 000000 is a value like any
    # other) and bodies whose checksum is 000000
    zero = st.deferred(lambda: _frames(tier))
    zero_body = st.deferred(lambda: zero_crc_frames(tier)).map(lambda f: f[:-3])
    # frame-shaped strings that are NOT codewords: preamble, a length field that agrees with the length, and a tail
    # of 000000 / FFFFFF / something else where the checksum would go ("every byte string" has no special shapes)
    shaped = st.builds(lambda f, t: f[:-3] + t, zero, st.one_of(st.sampled_from([b"\0\0\0", b"\0\0\0", b"\xff\xff\xff", b"\0\0\x01"]), st.binary(min_size=3, max_size=3)))
    return st.one_of(rnd, rnd, const, zero, zero_body, shaped).map(lambda b: {"data": b.hex()})


def e_value(tier, shard, nshards):
    """single set bit at every position for selected lengths (complete per length)"""
    lens = [1, 2, 3, 4, 6, 7, 33] if tier == "quick" else [1, 2, 3, 4, 5, 6, 7, 8, 33, 255, 256, 1029]
    i = 0
    for n in lens:
        for pos in range(8 * n):
            i += 1
            if i % nshards != shard:
                continue
            b = bytearray(n)
            b[pos >> 3] = 0x80 >> (pos & 7)
            yield {"data": bytes(b).hex()}


# ------------------------------------------------------------------ detection
def _must_reject(frame, damaged, what, val=1):
    RTCMReader, RTCMParseError, _, _ = _lib()
    try:
        RTCMReader.parse(damaged, validate=val)
    except RTCMParseError:
        return
    except Exception as e:  # pylint: disable=broad-except
        raise Fail("damaged-wrong-exception", f"{what} on frame len {len(frame)}: {type(e).__name__}: {e}") from e
    raise Fail("damaged-accepted", f"{what} on frame {frame.hex()[:60]}.. (len {len(frame)}) was accepted")


def _interior(seed, start, span):
    """deterministic interior bits of a burst (pure function of the case)"""
    if span <= 2:
        return 0
    h = hashlib.blake2b(f"{seed}|{start}|{span}".encode(), digest_size=4).digest()
    return int.from_bytes(h, "big") & ((1 << (span - 2)) - 1)


def _burst_positions(start, span, interior):
    pos = [start]
    for k in range(span - 2):
        if interior >> k & 1:
            pos.append(start + 1 + k)
    if span > 1:
        pos.append(start + span - 1)
    return pos


def o_detect(case):
    frame = bytes.fromhex(case["frame"])
    if framing.frame_problem(frame) is not None:
        raise AssertionError("harness: generated frame is not valid")
    RTCMReader, RTCMParseError = _lib()[0], _lib()[1]
    try:
        RTCMReader.parse(frame, validate=1)  # the undamaged frame must pass the CRC test ...
    except RTCMParseError as e:
        raise Fail("valid-frame-rejected", f"a frame with a correct CRC-24Q (len {len(frame)}) was rejected: {e}") from e
    except Exception:  # pylint: disable=broad-except
        pass  # ... whether its payload then decodes is not C08's business (some generated payloads start with a defined number)
    nbits = len(frame) * 8
    mode = case["mode"]
    evals = 0
    digs = []
    nt = len(frame) > 6
    if mode == "all_single":
        for p in range(nbits):
            _must_reject(frame, framing.flip_bits(frame, [p]), f"single bit {p}")
            evals += 1
        cnt = nbits if nt else 0
        cls = ["all_single"] + (["zero-crc-frame"] if frame[-3:] == b"\0\0\0" else [])
    elif mode == "all_burst_starts":
        span, seed = case["span"], case["seed"]
        for s in range(nbits - span + 1):
            pos = _burst_positions(s, span, _interior(seed, s, span))
            _must_reject(frame, framing.flip_bits(frame, pos), f"burst span {span} at {s} bits {pos}")
            evals += 1
        cnt = (nbits - span + 1) if nt else 0
        cls = [f"all_burst_span{span}"]
    elif mode == "all_pairs":
        for p in range(nbits):
            for q in range(p + 1, nbits):
                _must_reject(frame, framing.flip_bits(frame, [p, q]), f"pair {p},{q}")
                evals += 1
        cnt = evals if nt else 0
        cls = ["all_pairs"]
    else:  # explicit positions
        pos = sorted(set(p % nbits for p in case["positions"]))
        kind = case["kind"]
        if kind == "burst":
            assert pos[-1] - pos[0] < 24
        if kind == "odd":
            assert len(pos) % 2 == 1
        if kind == "pair":
            assert len(pos) == 2
        # validation is a bit flag (VALCKSUM = 1, tested with &): any word with bit 0 set means "on"
        val = case.get("val", 1)
        _must_reject(frame, framing.flip_bits(frame, pos), f"{kind} {pos}" + ("" if val == 1 else f" with validate={val!r}"), val)
        evals = 1
        cnt = None
        digs = [digest([case["frame"], pos])] if nt else []
        if kind == "lower-length":
            assert len(pos) <= 3 and pos[-1] - pos[0] < 24
        if kind == "trailer":
            assert pos[0] >= nbits - 24
        if kind == "header":
            assert pos[-1] < 16
        if kind == "header-coincidence":
            assert 8 <= pos[0] and pos[-1] <= 23 and len(pos) <= 3
        cls = [kind] + ([] if val == 1 and val is not True else ["validate-flag-word"]) + (["zero-crc-frame"] if frame[-3:] == b"\0\0\0" else []) + ["in-header" if pos[0] < 24 else ("in-crc" if pos[-1] >= nbits - 24 else "in-payload")]
    return Res(nontrivial=nt, classes=cls, evals=evals, digests=digs if cnt is None else None, count=cnt)


@st.composite
def nested_prefix_frames(draw, tier):
    """valid frame whose payload starts with a shorter message's payload followed by that message's own CRC, and whose
    length differs from the inner length in few bits: damage that lowers the length field turns the prefix into a
    frame that is valid by itself - the CRC must still be judged over the whole damaged byte string"""
    inner = draw(st.one_of(gen.unknown_payloads("small"), gen.any_message("small").map(lambda c: bytes.fromhex(c["payload"]))))
    l = len(inner)
    cands = [l ^ m for m in ([1 << k for k in range(10)] + [3 << k for k in range(9)] + [7 << k for k in range(8)]) if l + 3 < (l ^ m) <= 1023]
    if not cands or l > 500:
        return framing.build_frame(inner)
    big = tier != "small"
    L = draw(st.sampled_from(cands if big else [c for c in cands if c <= 300] or cands[:1]))
    inner_frame = framing.build_frame(inner)
    fill = draw(st.binary(min_size=L - l - 3, max_size=L - l - 3))
    return framing.build_frame(inner + inner_frame[-3:] + fill)


def inner_length_of(frame):
    """if the frame's payload starts with a shorter payload + that payload's valid CRC, the shorter length (else None)"""
    L = len(frame) - 6
    for m in [1 << k for k in range(10)] + [3 << k for k in range(9)] + [7 << k for k in range(8)]:
        l = L ^ m
        if 0 <= l and l + 3 < L:
            cand = bytes([0xD3, l >> 8, l & 0xFF]) + frame[3 : 3 + l + 3]
            if framing.crc_div(cand) == 0:
                return l
    return None


@st.composite
def zero_crc_frames(draw, tier):
    """valid frame whose correct CRC trailer is 00 00 00 (payload ends with the CRC of what precedes it)"""
    pre = draw(gen.unknown_payloads("small"))
    n = len(pre) + 3
    head = bytes([0xD3, n >> 8, n & 0xFF]) + pre
    f = head + framing.crc_table(head).to_bytes(3, "big") + b"\x00\x00\x00"
    assert framing.frame_problem(f) is None
    return f


@st.composite
def encapsulating_frames(draw, tier):
    """D3 00 LL | CRC(D3 00 LL) | <complete inner frame>: header+3 bytes form a codeword and so does the inner frame,
    hence the whole is a valid frame whose trailer is the inner frame's; damage to the first byte leaves a suffix
    that is valid by itself - validation must still cover the whole byte string it was given"""
    inner = framing.build_frame(draw(st.one_of(gen.unknown_payloads("small"), gen.any_message("small").map(lambda c: bytes.fromhex(c["payload"])))))
    n = 3 + len(inner) - 3
    if n > 1023:
        return inner
    head = bytes([0xD3, n >> 8, n & 0xFF])
    f = head + framing.crc_table(head).to_bytes(3, "big") + inner
    assert framing.frame_problem(f) is None
    return f


def _trailer_frames(tier):
    from pv import streams

    return streams.trailer_frames().map(lambda it: bytes.fromhex(it["b"]))


def _tiny_frames():
    """frames with a payload of 0 or 1 bytes (keep-alive fillers): too short to carry a message, but frames all the same -
    damaged, they are rejected for their checksum like any other"""
    return st.binary(min_size=0, max_size=1).map(framing.build_frame)


def _frames(tier):
    return st.one_of(_tiny_frames(), zero_crc_frames(tier), encapsulating_frames(tier), _trailer_frames(tier), gen.payloads(tier).map(framing.build_frame), gen.payloads(tier).map(framing.build_frame), nested_prefix_frames(tier))


@st.composite
def coincidence_cases(draw, tier):
    """a valid frame and damage confined to the 16 header bits behind the preamble (1-3 flipped bits: a burst of at
    most 16 bits), where the frame's own trailer has been CHOSEN to equal what a validator gets if it lets the
    damaged header decide which bytes the checksum covers: (a) the CRC of the damaged header plus as many payload
    bytes as the damaged length field announces, (b) the remainder of the whole damaged buffer, trailer included
    (= the syndrome of the error pattern). By chance either coincidence has probability 2^-24; the damage is
    guaranteed detectable all the same, because the remainder of the whole damaged byte string is not zero."""
    pre = draw(st.one_of(gen.unknown_payloads("small"), gen.any_message("small").map(lambda c: bytes.fromhex(c["payload"]))))
    pre = pre[:1000]
    n = len(pre) + 3
    k = draw(st.sampled_from([1, 1, 1, 2, 3]))
    pos = sorted(draw(st.lists(st.integers(8, 23), min_size=k, max_size=k, unique=True)))
    hdr = (n & 0xFFFF) ^ sum(1 << (23 - p) for p in pos)
    size2 = hdr & 0x3FF
    variant = draw(st.sampled_from(["prefix", "prefix", "syndrome"]))
    if variant == "prefix" and size2 <= len(pre):
        t = framing.crc_table(bytes([0xD3, hdr >> 8, hdr & 0xFF]) + pre[:size2])
    else:
        variant = "syndrome"
        t = framing.crc_table(framing.flip_bits(bytes(n + 6), pos))
    f = framing.frame_with_trailer(pre, t.to_bytes(3, "big"))
    assert framing.frame_problem(f) is None and framing.frame_problem(framing.flip_bits(f, pos)) is not None
    return {"frame": f.hex(), "mode": "explicit", "kind": "header-coincidence", "positions": pos, "variant": variant}


@st.composite
def s_detect(draw, tier):
    if draw(st.integers(0, 7)) == 0:
        case = draw(coincidence_cases(tier))
        case["val"] = 1
        return case
    case = draw(_s_detect(tier))
    case["val"] = draw(st.sampled_from([1, 1, 1, True, 3, 5, 0xFF, -1, 0x7FFFFFFF]))
    return case


@st.composite
def _s_detect(draw, tier):
    frame = draw(_frames(tier))
    nbits = len(frame) * 8
    kind = draw(st.sampled_from(["pair", "pair", "odd", "burst", "burst", "single", "lower-length", "lower-length", "trailer", "trailer", "header"]))
    if kind == "header":
        # the first two bytes turned into another protocol's header (UBX, NMEA) or another look-alike: a burst of <= 16 bits
        new = draw(st.one_of(st.sampled_from([b"\xb5\x62", b"$G", b"$P", b"$E", b"\xb5\x00", b"\xd3\xd3", b"\x00\x00", b"\xff\xff", b"\r\n"]), st.binary(min_size=2, max_size=2)))
        diff = int.from_bytes(new, "big") ^ int.from_bytes(frame[:2], "big")
        if diff:
            return {"frame": frame.hex(), "mode": "explicit", "kind": "header", "positions": [k for k in range(16) if diff >> (15 - k) & 1]}
        kind = "single"
    if kind == "trailer":
        # the whole trailer replaced by a look-alike value (all zero, all ones, CR LF ...): a burst of <= 24 bits
        new = draw(st.one_of(st.sampled_from([b"\0\0\0", b"\xff\xff\xff", b"\x00\r\n", b"\xd3\x00\x00", b"\x00\x00\x01", b"\x80\x00\x00"]), st.binary(min_size=3, max_size=3)))
        diff = int.from_bytes(new, "big") ^ int.from_bytes(frame[-3:], "big")
        if diff:
            pos = [nbits - 24 + k for k in range(24) if diff >> (23 - k) & 1]
            return {"frame": frame.hex(), "mode": "explicit", "kind": "trailer", "positions": pos}
        kind = "single"
    inner = inner_length_of(frame) if kind == "lower-length" else None
    if kind == "lower-length" and inner is None:
        kind = "single"
    if kind == "lower-length":
        diff = (len(frame) - 6) ^ inner
        pos = [23 - k for k in range(10) if diff >> k & 1]
        return {"frame": frame.hex(), "mode": "explicit", "kind": "lower-length", "positions": sorted(pos)}
    if kind == "single":
        pos = [draw(st.integers(0, nbits - 1))]
    elif kind == "pair":
        a = draw(st.integers(0, nbits - 1))
        # bias to close pairs and to maximal distance
        d = draw(st.one_of(st.integers(1, 48), st.integers(1, nbits - 1)))
        b = (a + d) % nbits
        if b == a:
            b = (a + 1) % nbits
        pos = [a, b]
    elif kind == "odd":
        k = draw(st.sampled_from([3, 3, 5, 7, 9, 15, 31]))
        k = min(k, nbits if nbits % 2 else nbits - 1)
        pos = draw(st.lists(st.integers(0, nbits - 1), min_size=k, max_size=k, unique=True))
    else:
        span = draw(st.integers(1, 24))
        start = draw(st.integers(0, nbits - span))
        interior = draw(st.integers(0, (1 << max(0, span - 2)) - 1))
        pos = _burst_positions(start, span, interior)
    return {"frame": frame.hex(), "mode": "explicit", "kind": kind, "positions": sorted(set(pos))}


@st.composite
def s_detect_all(draw, tier):
    """a frame x an exhaustive sweep (all single-bit positions / all burst starts / all pairs for tiny frames)"""
    big = draw(st.integers(0, 9)) == 0
    frame = draw(_frames("big" if big else "small"))
    mode = draw(st.sampled_from(["all_single", "all_burst_starts", "all_burst_starts"]))
    if len(frame) <= 12 and draw(st.booleans()):
        mode = "all_pairs"
    case = {"frame": frame.hex(), "mode": mode}
    if mode == "all_burst_starts":
        case["span"] = draw(st.one_of(st.integers(2, 24), st.sampled_from([23, 24])))
        case["seed"] = draw(st.integers(0, 2**32 - 1))
    return case


# ------------------------------------------------------------------ validate = 0
def pub(m):
    return [(k, v) for k, v in m.__dict__.items() if not k.startswith("_")]


def o_valoff(case):
    RTCMReader = _lib()[0]
    frame = bytes.fromhex(case["frame"])
    crc = bytes.fromhex(case["crc"])
    if case.get("undecodable"):
        # a payload that does not decode: with validation off the outcome (exception class) must not depend on the trailer
        outcomes = []
        for tr in (frame[-3:], crc, b"\0\0\0"):
            try:
                RTCMReader.parse(frame[:-3] + tr, validate=0)
                outcomes.append("ok")
            except Exception as e:  # pylint: disable=broad-except
                outcomes.append(type(e).__name__)
        if len(set(outcomes)) != 1:
            raise Fail("validate0-outcome-depends-on-trailer", f"validate=0, same payload, trailers right / {crc.hex()} / 000000 give {outcomes}")
        return Res(nontrivial=outcomes[0] != "ok", classes=["undecodable-payload" if outcomes[0] != "ok" else "decodable-after-all"])
    good = RTCMReader.parse(frame, validate=1)
    alt = frame[:-3] + crc
    try:
        m = RTCMReader.parse(alt, validate=0)
    except Exception as e:  # pylint: disable=broad-except
        raise Fail("validate0-raised", f"validate=0 with CRC bytes {crc.hex()}: {type(e).__name__}: {e}") from e
    if crc != frame[-3:]:
        _must_reject(frame, alt, f"wrong CRC bytes {crc.hex()} (after the same bytes were parsed with validate=0)")
    if bytes(m.serialize()) != bytes(good.serialize()):
        raise Fail("validate0-differs", f"CRC bytes {crc.hex()} changed what the parsed message serialises to ({bytes(m.serialize())[-3:].hex()} vs {bytes(good.serialize())[-3:].hex()})")
    if m.payload != good.payload or pub(m) != pub(good) or m.identity != good.identity:
        raise Fail("validate0-differs", f"CRC bytes {crc.hex()} changed the parse result of {frame.hex()[:60]}..")
    for lm in (2,):
        a = RTCMReader.parse(alt, validate=0, labelmsm=lm)
        b = RTCMReader.parse(frame, validate=1, labelmsm=lm)
        if pub(a) != pub(b):
            raise Fail("validate0-differs", f"labelmsm={lm}: CRC bytes {crc.hex()} changed the parse result")
    return Res(nontrivial=crc != frame[-3:], classes=["crc-changed" if crc != frame[-3:] else "crc-same"])


@st.composite
def s_valoff(draw, tier):
    crc = draw(st.one_of(st.binary(min_size=3, max_size=3), st.sampled_from([b"\0\0\0", b"\xff\xff\xff"])))
    if draw(st.integers(0, 3)) == 0:
        p = bytes.fromhex(draw(gen.any_message("small"))["payload"])
        cut = draw(st.integers(2, max(2, len(p) - 1)))
        return {"frame": framing.build_frame(p[:cut]).hex(), "crc": crc.hex(), "undecodable": True}
    frame = framing.build_frame(draw(gen.valid_payloads(tier)))
    return {"frame": frame.hex(), "crc": crc.hex()}


def o_cold(case):
    """calc_crc24q called for the FIRST time in a fresh interpreter by several threads at once"""
    from pv import child

    frames = [bytes.fromhex(f) for f in case["frames"]]
    for _ in range(case["children"]):
        out = child.cold_start_threads([], frames, threads=6)
        for t, r in out.items():
            for kk, a, b in r["crc"]:
                want = framing.crc_div(frames[kk][:-3])
                if a == "exc" or a != want or b != 0:
                    raise Fail("cold-start-crc", f"fresh interpreter, thread {t}: calc_crc24q gave {a!r} / {b!r}, reference {want:#x} / 0 (frame length {len(frames[kk])})")
    return Res(nontrivial=True, classes=["cold-start"], evals=case["children"] * 6 * len(frames))


@st.composite
def s_cold(draw, tier):
    fr = [draw(_frames("small")).hex() for _ in range(6)]
    return {"frames": fr, "children": 3 if tier == "quick" else 8}


SUBS = [
    Sub("crc_value", o_value, strategy=s_value, enum=e_value, examples=(250, 6000), rule="data length > 6", need={"len1029": 1, "len0": 1}),
    Sub("detect_patterns", o_detect, strategy=s_detect, examples=(250, 8000), rule="frame length > 6; distinct (frame, positions)", need={"pair": 1, "odd": 1, "burst": 1, "lower-length": 1, "zero-crc-frame": 1, "trailer": 1, "header-coincidence": 20}),
    Sub(
        "detect_sweeps",
        o_detect,
        strategy=s_detect_all,
        examples=(2, 24),
        exhaustive=True,
        rule="per generated frame: every single-bit position / every burst start (exhaustive per frame); distinct (frame, pattern)",
        need={"all_single": 1},
        sample=lambda c: {**c, "frame": c["frame"][:80] + ("..." if len(c["frame"]) > 80 else ""), "frame_len": len(c["frame"]) // 2},
    ),
    Sub("validate_off", o_valoff, strategy=s_valoff, examples=(60, 1500), rule="CRC bytes differ from the right ones"),
    Sub("crc_first_use_by_concurrent_threads", o_cold, strategy=s_cold, examples=(1, 8), rule="every case: fresh interpreters, 6 threads check-summing at once", sample=lambda c: {"frames": [f[:40] for f in c["frames"]], "children": c["children"]}),
]
