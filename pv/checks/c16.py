"""C16 - the MSM label option changes signal labels only."""

import io

from hypothesis import strategies as st

from pv import framing, gen, pins
from pv.core import Fail, Res, Sub
from pv.checks.c09 import probe_label, ref_masks

PROPERTY = "C16"
RULE = (
    "MSM payloads of all 49 types (generated masks) parsed with label option 1, 2, 0 and True through RTCMMessage, the static "
    "parser and a stream reader constructed with the option: option 1 and option 2 must agree on attribute names, order and every "
    "value except CELLSIG_*; True must equal 1; 0 may differ from 1 in CELLSIG_* only; under each option a signal ID carries the "
    "label it has in a single-signal probe message wherever it occurs; non-MSM messages of every identity must be identical under "
    "all options. Non-trivial: NCell >= 2 with >= 2 distinct signal IDs (MSM) / any non-MSM message with groups."
)
ASSUMPTIONS = ["what option value 0 selects is not documented; only 'differs in CELLSIG_* at most' is required of it"]


def pub(m):
    return [(k, v) for k, v in m.__dict__.items() if not k.startswith("_")]


def variants(p, lm):
    """the same payload through the three entry points"""
    from pyrtcm import RTCMMessage, RTCMReader

    f = framing.build_frame(p)
    a = RTCMMessage(payload=p, labelmsm=lm)
    b = RTCMReader.parse(f, labelmsm=lm)
    pa, pb = pub(a), pub(b)
    if pa != pb:
        raise Fail("option-not-passed-through", f"labelmsm={lm!r}: static parser result differs from RTCMMessage(payload, labelmsm)")
    if pub(RTCMReader.parse(f, validate=0, labelmsm=lm)) != pa:
        raise Fail("option-not-passed-through", f"labelmsm={lm!r}: static parser with validate=0 differs from RTCMMessage(payload, labelmsm)")
    # the same bytes handed over in another container (bytearray, memoryview), and the frame followed by further bytes
    # with validation off: whether the library accepts such input is not this property's business, but if it returns
    # a message for the same MSM payload, the option given decides the labels there as everywhere else
    for what, call in (
        ("RTCMReader.parse(bytearray(frame))", lambda: RTCMReader.parse(bytearray(f), labelmsm=lm)),
        ("RTCMReader.parse(memoryview(frame))", lambda: RTCMReader.parse(memoryview(f), labelmsm=lm)),
        ("RTCMMessage(payload=bytearray(payload))", lambda: RTCMMessage(payload=bytearray(p), labelmsm=lm)),
        ("RTCMReader.parse(frame + 2 more bytes, validate=0)", lambda: RTCMReader.parse(f + b"\x00\x00", validate=0, labelmsm=lm)),
        ("RTCMReader.parse(frame + frame, validate=0)", lambda: RTCMReader.parse(f + f, validate=0, labelmsm=lm)),
    ):
        try:
            alt = call()
        except Exception:  # pylint: disable=broad-except
            continue
        if alt is not None and getattr(alt, "identity", None) == a.identity and [(k, v) for k, v in pub(alt) if k.startswith("CELLSIG")] != [(k, v) for k, v in pa if k.startswith("CELLSIG")]:
            raise Fail("option-not-passed-through", f"labelmsm={lm!r}: {what} labels the signals differently from RTCMMessage(payload, labelmsm)")
    if lm == 1:
        # the RINEX codes are the documented default of every entry point: leaving the option out is the same as 1
        dflt = [("RTCMMessage(payload)", RTCMMessage(payload=p)), ("RTCMReader.parse(frame)", RTCMReader.parse(f)), ("RTCMReader.parse(frame, validate=0)", RTCMReader.parse(f, validate=0))]
        dflt += [(f"RTCMReader(stream) frame {k}", c) for k, (_, c) in enumerate(RTCMReader(io.BytesIO(f + f)))]
        for what, m in dflt:
            if pub(m) != pa:
                raise Fail("default-option-not-rinex", f"{what} without a label option differs from labelmsm=1")
    # the static parser called through a reader instance that was built with another option: the argument decides
    for other in (1, 2):
        inst = RTCMReader(io.BytesIO(b""), labelmsm=other, validate=0)
        if pub(inst.parse(f, labelmsm=lm)) != pa or pub(inst.parse(f, validate=1, labelmsm=lm)) != pa:
            raise Fail("option-not-passed-through", f"labelmsm={lm!r}: RTCMReader.parse called on a reader instance built with labelmsm={other} differs from RTCMMessage(payload, labelmsm)")
    # every reader configuration must hand the option to the parse (two frames: the option must reach every parse)
    for val in (1, 0):
        for qoe in (2, 0):
            got = list(RTCMReader(io.BytesIO(f + f), labelmsm=lm, quitonerror=qoe, validate=val))
            if len(got) != 2:
                raise Fail("reader-lost-frame", f"reader with labelmsm={lm!r} validate={val} returned {len(got)} results for two frames")
            for k, (_, c) in enumerate(got):
                if pub(c) != pa:
                    raise Fail("option-not-passed-through", f"labelmsm={lm!r}: stream reader (validate={val}, quitonerror={qoe}, frame {k}) differs from RTCMMessage(payload, labelmsm)")
        # a frame of the same type whose payload stops after three bytes (rightly framed, rejected by the decoder) between
        # the two: the option still reaches the parse behind a failed one
        g = framing.build_frame(p[:3])
        if g == f:
            continue
        goods = [c for r, c in RTCMReader(io.BytesIO(f + g + f), labelmsm=lm, quitonerror=0, validate=val) if r == f]
        if len(goods) != 2:
            raise Fail("reader-lost-frame", f"reader with labelmsm={lm!r} validate={val} returned {len(goods)} of the two frames around an undecodable one")
        if pub(goods[1]) != pa:
            raise Fail("option-not-passed-through", f"labelmsm={lm!r}: stream reader (validate={val}): the frame behind an undecodable frame differs from RTCMMessage(payload, labelmsm)")
    return pa


def readers_alive_together(p, expect):
    """one reader per option value, all constructed before any is read: the option belongs to the reader instance"""
    from pyrtcm import RTCMReader

    f = framing.build_frame(p)
    opts = [1, 2, 0, True, 2, 1]
    # keyword and positional spelling (documented order: datastream, validate, quitonerror, labelmsm, ...)
    readers = [RTCMReader(io.BytesIO(f + f), labelmsm=lm, quitonerror=2, validate=k % 2) if k % 2 == 0 else RTCMReader(io.BytesIO(f + f), (k // 2) % 2, 2, lm) for k, lm in enumerate(opts)]
    for lm, rdr in zip(opts, readers):
        got = list(rdr)
        if len(got) != 2:
            raise Fail("reader-lost-frame", f"reader with labelmsm={lm!r} returned {len(got)} results for two frames")
        for _, c in got:
            if pub(c) != expect[lm]:
                raise Fail("option-not-bound-to-reader-instance", f"labelmsm={lm!r}: a reader constructed alongside readers with other options decodes differently from RTCMMessage(payload, labelmsm={lm!r})")


def concurrently(p, expect):
    """the two options parsed at the same time in threads"""
    import sys
    import threading

    from pyrtcm import RTCMMessage

    errs = []
    old = sys.getswitchinterval()
    sys.setswitchinterval(1e-6)
    try:
        def work(lm):
            try:
                for _ in range(6):
                    if pub(RTCMMessage(payload=p, labelmsm=lm)) != expect[lm]:
                        errs.append(lm)
                        return
            except Exception as e:  # pylint: disable=broad-except
                errs.append((lm, type(e).__name__))

        ts = [threading.Thread(target=work, args=(lm,)) for lm in (1, 2, 1, 2)]
        for t in ts:
            t.start()
        for t in ts:
            t.join(60)
    finally:
        sys.setswitchinterval(old)
    if errs:
        raise Fail("option-result-depends-on-concurrent-parse", f"parsing with labelmsm=1 and labelmsm=2 in threads: {errs[:3]}")


def o_msm(case):
    ident = case["ident"]
    p = bytes.fromhex(case["payload"])
    r1 = variants(p, 1)
    r2 = variants(p, 2)
    r0 = variants(p, 0)
    rt = variants(p, True)
    for name, r in (("2", r2), ("0", r0), ("True", rt)):
        if [k for k, _ in r] != [k for k, _ in r1]:
            raise Fail("option-changes-attribute-names", f"{ident}: labelmsm={name} changes the attribute list")
        for (k, v1), (_, v) in zip(r1, r):
            if v1 != v and not k.startswith("CELLSIG_"):
                raise Fail("option-changes-other-attribute", f"{ident}: {k} is {v1!r} with labelmsm=1 and {v!r} with labelmsm={name}")
    readers_alive_together(p, {1: r1, 2: r2, 0: r0, True: rt})
    if case.get("threads"):
        concurrently(p, {1: r1, 2: r2})
    sats, sigs, cells = ref_masks(p)
    for lm, r in ((1, r1), (2, r2)):
        d = dict(r)
        for k, (s, g) in enumerate(cells, 1):
            want = probe_label(ident, g, lm)
            if d.get(f"CELLSIG_{k:02d}") != want:
                raise Fail("inconsistent-signal-label", f"{ident} labelmsm={lm}: cell {k} (signal ID {g}) is labelled {d.get(f'CELLSIG_{k:02d}')!r}; in a single-signal message the same ID is {want!r}")
    nsig = len({g for _, g in cells})
    cls = [pins.msm_cons(ident), f"msm{pins.msm_level(ident)}"]
    if r1 != r2:
        cls.append("labels-differ")
    return Res(nontrivial=len(cells) >= 2 and nsig >= 2, classes=cls, evals=12)


def plan_msm(tier, shard, nshards):
    ids = pins.msm_ids()[shard::nshards]
    n = 60 if tier == "quick" else 1000
    return [(i, st.builds(lambda c, t: {**c, "threads": t}, gen.messages(i, "small"), st.integers(0, 5).map(lambda k: k == 0)), n) for i in ids]


def o_other(case):
    p = bytes.fromhex(case["payload"])
    from pyrtcm import RTCMMessage

    def shown(lm):
        m = RTCMMessage(payload=p, labelmsm=lm)
        return {"str()": str(m), "repr()": repr(m), "serialize()": bytes(m.serialize()), "identity": m.identity, "payload": bytes(m.payload), "ismsm": m.ismsm}

    r1 = variants(p, 1)
    s1 = shown(1)
    for lm in (2, 0, True):
        if variants(p, lm) != r1:
            raise Fail("non-msm-affected", f"{case.get('ident')}: labelmsm={lm!r} changes a non-MSM message")
        sl = shown(lm)
        diff = [k for k in s1 if s1[k] != sl[k]]
        if diff:
            raise Fail("non-msm-affected", f"{case.get('ident')}: labelmsm={lm!r} changes {diff} of a non-MSM message ({str(sl[diff[0]])[:80]} vs {str(s1[diff[0]])[:80]})")
    return Res(nontrivial=len(r1) > 8, classes=["defined" if case.get("ident") else "stub"], evals=12)


def plan_other(tier, shard, nshards):
    msm = set(pins.msm_ids())
    ids = [i for i in gen.all_idents_safe() if i not in msm][shard::nshards]
    n = 4 if tier == "quick" else 120
    out = [(i, gen.messages(i, "small"), n) for i in ids]
    out.append(("stub", gen.unknown_payloads("small").map(lambda b: {"payload": b.hex()}), 10 if tier == "quick" else 300))
    return out


def _short(c):
    c = dict(c)
    if len(c.get("payload", "")) > 160:
        c["payload"] = c["payload"][:160] + "..."
    return c


SUBS = [
    Sub("msm_option_metamorphic", o_msm, plan=plan_msm, rule="NCell >= 2 with >= 2 distinct signal IDs", need={"labels-differ": 1}, sample=_short),
    Sub("non_msm_unaffected", o_other, plan=plan_other, rule="message with more than 8 attributes", sample=_short),
]
