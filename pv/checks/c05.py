"""C05 - a damaged frame costs exactly that frame; error modes differ only in reporting."""

import io
import logging

from hypothesis import strategies as st

from pv import framing, streams
from pv.core import Fail, Res, Sub

PROPERTY = "C05"
RULE = (
    "streams of 1-10 valid frames (all defined identities, unknown types) of which a generated subset carries "
    "guaranteed-detectable damage (1-3 flipped bits, bursts <= 24 bits with both end bits set) anywhere behind the 3-byte "
    "header, under ignore / log+handler / log without handler / raise; list-model oracle: returned == undamaged frames in "
    "order, handler calls / log records == number of damaged frames (0 in ignore mode), in raise mode exactly one "
    "RTCMParseError per damaged frame at its place in the event order with the same reader continuing afterwards. "
    "Non-trivial: >= 1 damaged frame with a good frame on each side."
)
ASSUMPTIONS = ["damage is confirmed detectable by the independent CRC reference before the case is used"]


class _Count(logging.Handler):
    def __init__(self):
        super().__init__(level=logging.DEBUG)
        self.n = 0

    def emit(self, record):
        self.n += 1


class _Collector(list):
    """a callable error collector that is falsy while empty (a list of errors with __call__)"""

    __call__ = list.append


class _Bound:
    def __init__(self, sink):
        self.sink = sink

    def handle(self, err):
        self.sink.append(err)


def make_handler(kind, calls):
    if kind == "collector":
        c = _Collector()
        c.calls = calls
        _orig = c.append

        def app(err, _c=c):
            calls.append(err)

        # the object itself is the handler; record through a subclass hook
        class C(_Collector):
            def __call__(self, err):
                calls.append(err)
                list.append(self, err)

        return C()
    if kind == "object-with-sink-like-attributes":
        # a callable object that also has attributes named like a logger's, a file's, a queue's methods (what a
        # unittest.mock.Mock, a logging adapter or a writer class looks like): the handler is the object, called
        class Sink:
            def __call__(self, err):
                calls.append(err)

            def _other(self, *a, **k):
                return None

            error = warning = exception = log = write = put = put_nowait = append = send = emit = handle = _other
            name = "sink"
            level = 0
            handlers = ()

        return Sink()
    if kind == "object-with-none-attributes":
        class Sink2:
            error = write = put = append = handle = None
            __name__ = None

            def __call__(self, err):
                calls.append(err)

        return Sink2()
    if kind == "partial":
        import functools

        return functools.partial(lambda sink, err: sink.append(err), calls)
    if kind == "bound-method":
        return _Bound(calls).handle
    if kind == "extra-default-parameter":
        # callable with one argument, declares more (def h(err, sink=errors)); *args handlers such as print likewise
        def h(err, sink=calls):
            sink.append(err)

        return h
    if kind == "varargs":
        return lambda *a, **k: calls.append(a[0])
    if kind == "returns-true":
        # the handler's return value has no documented meaning: "handled" flags, write() counts ... must change nothing
        return lambda err: calls.append(err) or True
    if kind == "returns-count":
        return lambda err: (calls.append(err), len(calls))[1]
    return lambda err: calls.append(err)


def o_damage(case):
    from pyrtcm import RTCMReader
    from pyrtcm.exceptions import RTCMParseError

    items = case["items"]
    for i in items:
        b = bytes.fromhex(i["b"])
        ok = framing.frame_problem(b) is None
        if ok != (i["k"] == "frame"):
            raise AssertionError("harness: damaged frame is not detectably damaged / good frame is not valid")
    data = streams.join(items)
    good = [bytes.fromhex(i["b"]) for i in items if i["k"] == "frame"]
    nbad = sum(1 for i in items if i["k"] == "damaged")
    expect_events = [("ok", bytes.fromhex(i["b"])) if i["k"] == "frame" else ("err", None) for i in items]
    mode = case["mode"]
    calls = []
    handler = make_handler(case.get("handler", "function"), calls) if mode in ("ignore", "log-handler", "raise") else None
    qoe = {"ignore": 0, "log-handler": 1, "log-nohandler": 1, "raise": 2}[mode]
    counter = _Count()
    lg = logging.getLogger("pyrtcm.rtcmreader")
    lg.addHandler(counter)
    old_level = lg.level
    lg.setLevel(logging.DEBUG)
    try:
        sock = None
        nstall = 0
        if case.get("sock"):
            # the same stream over a socket, one item per segment, with timeouts between some items (never inside one):
            # the application polls again; nothing is lost and nothing is reported twice
            from pv.doubles import ScriptedSocket

            evs = []
            for k, i in enumerate(items):
                evs.append(bytes.fromhex(i["b"]))
                if case["sock"][k % len(case["sock"])]:
                    evs.append("timeout")
                    nstall += 1
            sock = ScriptedSocket(evs + ["close"])
            sock.budget = 6 * len(data) + 8 * len(evs) + 256
            rdr = RTCMReader(sock, quitonerror=qoe, errorhandler=handler, bufsize=case.get("bufsize", 4096))
        elif case.get("pipe"):
            from pv.doubles import pipe_like

            rdr = RTCMReader(pipe_like(data, case["pipe"]), quitonerror=qoe, errorhandler=handler)
        else:
            rdr = RTCMReader(io.BytesIO(data), quitonerror=qoe, errorhandler=handler)
        events = []
        state = {"done": False, "fail": None, "it": iter(rdr)}

        def consume(limit):
            """up to `limit` next() calls on the SAME iterator; returns True when iteration has ended"""
            for _ in range(limit):
                try:
                    raw, parsed = next(state["it"])
                except StopIteration:
                    if sock is not None and not sock.closed_by_peer:
                        state["it"] = iter(rdr)  # a gap in delivery: poll again
                        continue
                    state["done"] = True
                    return
                except RTCMParseError:
                    if mode != "raise":
                        state["fail"] = Fail("raised-in-nonraise-mode", f"mode {mode}: RTCMParseError escaped the iterator")
                        return
                    events.append(("err", None))
                    continue
                except BaseException as e:  # pylint: disable=broad-except
                    state["fail"] = e
                    return
                events.append(("ok", raw))
                if parsed is None or parsed.payload != raw[3:-3]:
                    state["fail"] = Fail("parsed-mismatch", "parsed object does not belong to the raw frame")
                    return

        total = len(items) * 2 + 4 + 2 * nstall
        if case.get("handoff"):
            # the reader is handed from one thread to another part-way (never used concurrently): "the same reader
            # keeps working" must not depend on which thread continues
            import threading

            from pv.core import HarnessError

            first = max(1, len(items) // 2)
            for lim in (first, total):
                if state["done"] or state["fail"]:
                    break
                t = threading.Thread(target=consume, args=(lim,), daemon=True)
                t.start()
                t.join(60)
                if t.is_alive():
                    raise HarnessError("C05 hand-off: the second thread did not return within 60 s on a stream of a few frames (the reader blocks after being handed to another thread?) - inconclusive by rule, not reported as a violation")
        else:
            consume(total)
        if state["fail"] is not None:
            raise state["fail"]
        if not state["done"]:
            raise Fail("non-termination", "iterator did not stop")
    finally:
        lg.removeHandler(counter)
        lg.setLevel(old_level)
        if sock is not None:
            sock.close()
    returned = [r for k, r in events if k == "ok"]
    if returned != good:
        detail = f"returned {len(returned)} frames, expected the {len(good)} undamaged of {len(items)}"
        k = next((n for n, (a, b) in enumerate(zip(returned, good)) if a != b), min(len(returned), len(good)))
        raise Fail(f"wrong-frames-{mode}", f"{detail}; first difference at position {k}")
    if mode == "raise":
        if events != expect_events:
            raise Fail("raise-mode-event-order", f"events {[k for k, _ in events]} expected {[k for k, _ in expect_events]}")
        if calls:
            raise Fail("handler-called-in-raise-mode", f"{len(calls)} calls")
    elif mode == "ignore":
        if calls:
            raise Fail("handler-called-in-ignore-mode", f"{len(calls)} calls for {nbad} damaged frames")
    elif mode == "log-handler":
        if len(calls) != nbad:
            raise Fail("handler-count", f"handler called {len(calls)} times for {nbad} damaged frames")
        if not all(isinstance(e, RTCMParseError) for e in calls):
            raise Fail("handler-argument", f"handler got {[type(e).__name__ for e in calls]}")
    # log mode without a handler: the statement only fixes the returned frames; the number of log records is recorded
    kinds = [i["k"] for i in items]
    cls = [mode]
    if mode == "log-nohandler" and nbad:
        cls.append("log-records==damaged" if counter.n == nbad else "log-records!=damaged")
    sandwiched = any(kinds[j] == "damaged" and "frame" in kinds[:j] and "frame" in kinds[j + 1 :] for j in range(len(kinds)))
    if kinds[0] == "damaged":
        cls.append("first-damaged")
    if kinds[-1] == "damaged":
        cls.append("last-damaged")
    if any(a == b == "damaged" for a, b in zip(kinds, kinds[1:])):
        cls.append("adjacent-damaged")
    for i in items:
        if i["k"] == "damaged":
            cls.append("damage-in-" + i["where"])
    if case.get("long_run"):
        cls.append("long-run-of-damaged-frames")
    if "tiny" in case:
        cls.append("two-byte-payload-all-single-bit-damage")
    if sum(1 for i in items if i.get("repeat") and i["k"] == "damaged") >= 2:
        cls.append("re-broadcast-frame-damaged-twice")
    if any(i["k"] == "damaged" and i.get("syncy_payload") for i in items):
        cls.append("damaged-frame-with-sync-like-payload")
    cls.append("handler-" + case.get("handler", "function"))
    if case.get("sock"):
        cls.append("socket-with-gaps-between-items" if any(case["sock"]) else "socket")
    if case.get("pipe") and not case.get("sock"):
        cls.append("non-seekable-buffered-stream")
    if case.get("handoff"):
        cls.append("reader-handed-to-another-thread")
    return Res(nontrivial=sandwiched, classes=sorted(set(cls)))


@st.composite
def s_damage(draw, tier):
    items = draw(st.lists(st.one_of(streams.frames("small"), streams.frames("small"), streams.damaged_frames("small")), min_size=1, max_size=10))
    if draw(st.integers(0, 3)) == 0:
        # a re-broadcast message: the same frame several times, adjacent copies damaged differently in the payload only
        base = bytes.fromhex(draw(streams.frames("small"))["b"])
        nb = len(base) * 8
        reps = []
        same = draw(st.booleans())  # identical damage in every copy, or different damage per copy
        fixedpos = draw(st.lists(st.integers(24, max(24, nb - 25)), min_size=1, max_size=3, unique=True))
        for _ in range(draw(st.integers(2, 4))):
            if nb - 48 > 0 and draw(st.integers(0, 3)) != 0:
                pos = fixedpos if same else draw(st.lists(st.integers(24, nb - 25), min_size=1, max_size=3, unique=True))
                reps.append(streams.item("damaged", framing.flip_bits(base, sorted(pos)), pos=sorted(pos), where="payload", repeat=True))
            else:
                reps.append(streams.item("frame", base, repeat=True))
        k = draw(st.integers(0, len(items)))
        items = items[:k] + reps + items[k:]
    return {"items": items, "mode": draw(st.sampled_from(["ignore", "log-handler", "log-nohandler", "raise"])), "handler": draw(st.sampled_from(["function", "collector", "bound-method", "returns-true", "returns-count", "extra-default-parameter", "varargs", "object-with-sink-like-attributes", "object-with-none-attributes", "partial"])), "handoff": draw(st.integers(0, 3)) == 0, "pipe": draw(st.sampled_from([0, 0, 0, 1, 16, 8192])), **({"sock": draw(st.lists(st.sampled_from([0, 1, 1]), min_size=1, max_size=6)), "bufsize": draw(st.sampled_from([1, 16, 4096]))} if draw(st.integers(0, 3)) == 0 else {})}


def e_tiny(tier, shard, nshards):
    """EVERY message number in a frame with a 2-byte payload x EVERY single-bit damage position behind the header
    (16 payload + 24 CRC bits), between two good frames; modes rotate (complete over numbers and positions)"""
    from pv import framing as fr

    good = {"k": "frame", "b": fr.build_frame(b"\xfe\x80\x01\x02").hex()}
    modes = ("ignore", "log-handler", "raise", "log-nohandler")
    step = 1 if tier == "thorough" else 1
    for n in range(shard, 4096, nshards * step):
        f = fr.build_frame(bytes([n >> 4, (n & 0xF) << 4]))
        items = [good]
        for pos in range(24, len(f) * 8):
            items.append({"k": "damaged", "b": fr.flip_bits(f, [pos]).hex(), "where": "crc" if pos >= len(f) * 8 - 24 else "payload"})
            items.append(good)
        yield {"items": items, "mode": modes[n % 4], "handler": "function", "tiny": n}


def e_all(tier, shard, nshards):
    yield from e_runs(tier, shard, nshards)
    yield from e_tiny(tier, shard, nshards)


def e_runs(tier, shard, nshards):
    """long runs of consecutive damaged frames between good ones (a damaged frame must cost exactly that frame however many there are)"""
    from pv import framing as fr

    good = fr.build_frame(bytes([0xFE, 0x80, 0x01, 0x02]))
    k = 0
    for run in ([50, 1200] if tier == "quick" else [50, 400, 1200, 3000, 10000]):
        for mode in ("ignore", "log-handler", "log-nohandler", "raise"):
            k += 1
            if k % nshards != shard:
                continue
            items = [{"k": "frame", "b": good.hex()}]
            for j in range(run):
                f = fr.build_frame(bytes([0xFE, 0x80, j & 0xFF, (j >> 8) & 0xFF]))
                d = fr.flip_bits(f, [24 + (j % (len(f) * 8 - 24))])
                items.append({"k": "damaged", "b": d.hex(), "where": "crc" if 24 + (j % (len(f) * 8 - 24)) >= len(f) * 8 - 24 else "payload"})
            items.append({"k": "frame", "b": good.hex()})
            yield {"items": items, "mode": mode, "handler": "function", "long_run": run}


def _sample(c):
    if "tiny" in c:
        return {"tiny": c["tiny"], "mode": c["mode"], "items": "good frame, then for each of the 40 bit positions behind the header: 2-byte-payload frame of this number with that bit flipped, good frame"}
    if c.get("long_run"):
        return {"long_run": c["long_run"], "mode": c["mode"], "items": "good frame, long_run single-bit-damaged 4-byte frames, good frame"}
    return {k: (v if k != "items" else [{**i, "b": i["b"][:40] + ("..." if len(i["b"]) > 40 else "")} for i in v]) for k, v in c.items()}


SUBS = [
    Sub(
        "damaged_streams",
        o_damage,
        strategy=s_damage,
        enum=e_all,
        examples=(250, 5000),
        rule="see property rule",
        need={"reader-handed-to-another-thread": 1, "two-byte-payload-all-single-bit-damage": 4096, "re-broadcast-frame-damaged-twice": 1, "damaged-frame-with-sync-like-payload": 1, "long-run-of-damaged-frames": 1, "handler-collector": 1, "non-seekable-buffered-stream": 1, "handler-returns-true": 1, "handler-object-with-sink-like-attributes": 1, "handler-object-with-none-attributes": 1, "socket-with-gaps-between-items": 1, "damage-in-crc": 1, "damage-in-payload": 1, "damage-in-straddle": 1, "adjacent-damaged": 1, "raise": 1, "log-nohandler": 1},
        sample=_sample,
    ),
]
