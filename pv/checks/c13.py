"""C13 - a parse result depends only on the bytes parsed, not on history or threads."""

import hashlib
import io
import sys
import threading

from hypothesis import strategies as st

from pv import framing, gen, model
from pv.core import Fail, HarnessError, Res, Sub
from pv.checks.c03 import compare
from pv.checks.c04 import mutate
from pv.checks.c10 import renumber

PROPERTY = "C13"
RULE = (
    "(1) histories: generated sequences (up to 30 steps) of parse operations over generated messages of every identity - through "
    "RTCMMessage, RTCMReader.parse, a long-lived reader over a growing stream, either label option, truncated / garbage / wrong-CRC "
    "variants that must fail, re-parses of earlier items; every successful parse must equal the independent interpreter's expectation "
    "and the first parse of the same bytes, a failing parse must fail again with the same exception class, and after every step a deep "
    "digest of RTCM_DATA_FIELDS, RTCM_PAYLOADS_GET{,_MSM,_IGS}, RTCM_MSGIDS, PRNSIGMAP, GNSSMAP, COEFFS, NMEA_HDR must equal the digest "
    "taken at import. (2) schedules: 2-4 parse jobs (incl. failing ones) interleaved at source-line granularity by a harness-owned "
    "scheduler following a generated choice list; (3) free-running stress, 4 threads, switch interval 1e-6, over generated small messages plus a hash-built workload of boundary-sized nested messages of many shapes. Non-trivial: (1) a payload is "
    "re-parsed after a parse of a different identity and a failing parse; (2) >= 10 context switches inside the decoder."
)
ASSUMPTIONS = [
    "the scheduler interleaves at source-line granularity, not inside a line; the free-running stress is best effort",
    "exception text is not part of the statement, only the exception class",
]


def table_digest():
    import pyrtcm.rtcmtables as T
    import pyrtcm.rtcmtypes_core as C
    from pyrtcm.rtcmtypes_get import RTCM_PAYLOADS_GET
    from pyrtcm.rtcmtypes_get_igs import RTCM_PAYLOADS_GET_IGS
    from pyrtcm.rtcmtypes_get_msm import RTCM_PAYLOADS_GET_MSM

    h = hashlib.blake2b(digest_size=16)
    for name, obj in (
        ("F", C.RTCM_DATA_FIELDS),
        ("GET", RTCM_PAYLOADS_GET),
        ("MSM", RTCM_PAYLOADS_GET_MSM),
        ("IGS", RTCM_PAYLOADS_GET_IGS),
        ("IDS", C.RTCM_MSGIDS),
        ("PRNSIG", T.PRNSIGMAP),
        ("GNSS", C.GNSSMAP),
        ("COEFFS", C.COEFFS),
        ("NMEA", C.NMEA_HDR),
    ):
        h.update(name.encode())
        h.update(repr(obj).encode())
    return h.hexdigest()


BASELINE = table_digest()  # taken when the check module is imported, before any parse of this run


def pub(m):
    return [(k, v) for k, v in m.__dict__.items() if not k.startswith("_")]


def do_parse(how, payload, lm):
    """one parse; returns ('ok', public attrs) or ('exc', class name)"""
    from pyrtcm import RTCMMessage, RTCMReader

    try:
        if how == "msg":
            m = RTCMMessage(payload=payload, labelmsm=lm)
        elif how == "static":
            m = RTCMReader.parse(framing.build_frame(payload), labelmsm=lm)
        elif how == "static-badcrc":
            f = bytearray(framing.build_frame(payload))
            f[-1] ^= 0x01
            m = RTCMReader.parse(bytes(f), labelmsm=lm)
        else:  # fresh reader object over one frame
            got = list(RTCMReader(io.BytesIO(framing.build_frame(payload)), labelmsm=lm, quitonerror=2))
            if len(got) != 1:
                raise Fail("reader-result-count", f"{len(got)} results for one frame")
            m = got[0][1]
        return ("ok", pub(m))
    except Fail:
        raise
    except Exception as e:  # pylint: disable=broad-except
        return ("exc", type(e).__name__)


def expected(payload, lm, what):
    """independent expectation for a payload that must parse"""
    ident, w = model.decode(payload)
    return ident, w


def check_result(payload, lm, res, how, step):
    ident = framing.ref_identity(payload)
    if res[0] != "ok":
        return
    if ident is not None and model.definition(ident) is not None:
        try:
            _, w = model.decode(payload)
        except model.Overrun:
            raise Fail("history-accepts-overrun", f"step {step}: {ident} payload overruns but parsed")

        class _M:  # adapter for compare()
            pass

        m = _M()
        m.__dict__.update(dict(res[1]))
        compare(payload, w, m, "history")
        if ident in MSM_IDS:
            # derived labels are a function of these bytes too (pinned tables, C09's reference decoder)
            from pv.checks.c09 import check_msm

            check_msm(ident, payload, m, lm, "history-msm")


def o_history(case):
    from pyrtcm import RTCMReader

    first = {}  # (payload, lm, how-class) -> first result
    seen_idents = []
    failed_before = False
    nt = False
    cls = set()
    live_stream = io.BytesIO()
    lv = case.get("lv", 1)
    lp = case.get("lparsed", True)
    live = RTCMReader(live_stream, quitonerror=case.get("qoe", 1), validate=lv, parsed=lp)
    live2 = []  # [reader in raise mode, its growing stream], built on first use
    kept = []  # one iterator object obtained once and kept for the whole history (via "kept-iter")
    live_expect = []
    if table_digest() != BASELINE:
        raise Fail("tables-modified", "definition / lookup tables differ from their import-time digest before the history starts")
    items = case["items"]
    for step, op in enumerate(case["ops"]):
        it = items[op["i"] % len(items)]
        payload = bytes.fromhex(it["payload"])
        if op.get("mut"):
            payload = mutate(payload, {"mut": op["mut"], "a": op["a"], "b": op["b"]})
            if len(payload) > 1023:
                payload = payload[:1023]
        lm = op["lm"]
        how = op["how"]
        if how == "drain":
            # ask the long-lived reader for more when its stream is at its end: nothing to report, and it must not change
            # what the reader delivers once more bytes arrive
            try:
                if op.get("via") == "kept-iter":
                    if not kept:
                        kept.append(iter(live))
                    next(kept[0])
                elif op.get("via") in ("next", "iter-next", "for-break"):
                    next(live)
                else:
                    live.read()
            except StopIteration:
                pass
            cls.add("drain")
            continue
        if how == "live":
            # long-lived reader over a growing stream: append (junk +) the frame, read it back. The reference is a fresh
            # reader with the same options over the frame alone: junk holds no frame, earlier traffic is history.
            frame = framing.build_frame(payload)
            bt = bool(op.get("bt"))
            if bt:
                frame = frame[:-1] + bytes([frame[-1] ^ 0x5A])
            junk = bytes.fromhex(op.get("pre") or "")
            if op.get("ubx"):
                # the growing file ends inside a UBX message (a writer that died, a rotated log); the reader polls, finds
                # nothing, and the file grows again with new data: the truncated item is history like any other
                ln, cut = op["ubx"]
                u = b"\xb5\x62\x01\x02" + bytes([ln, 0]) + bytes(1 + (7 * k) % 0x20 for k in range(ln + 2))
                pos = live_stream.tell()
                live_stream.seek(0, 2)
                live_stream.write(u[: 6 + cut % (ln + 2)])
                live_stream.seek(pos)
                try:
                    live.read()
                except Exception:  # pylint: disable=broad-except
                    pass  # raise mode is not used here; a stream error for the truncated item is the library's choice
                cls.add("live-after-truncated-ubx")
            if op.get("tf") and not bt:
                # a second long-lived reader, in RAISE mode, over its own growing file: the file ends inside a frame (the
                # application catches what the reader raises, or gets nothing), then grows by a complete frame: that
                # frame is delivered as a fresh reader delivers it - an abandoned frame is history like any other
                if not live2:
                    s2 = io.BytesIO()
                    live2.extend([RTCMReader(s2, quitonerror=2, validate=lv, parsed=lp), s2])
                r2, s2 = live2
                for chunk, last in ((frame[: 1 + op["tf"] % (len(frame) - 1)], False), (frame, True)):
                    pos2 = s2.tell()
                    s2.seek(0, 2)
                    s2.write(chunk)
                    s2.seek(pos2)
                    try:
                        got2 = r2.read()
                    except Exception as e:  # pylint: disable=broad-except
                        got2 = ("exc", type(e).__name__)
                    if last:
                        want2 = list(RTCMReader(io.BytesIO(frame), quitonerror=0, validate=lv, parsed=lp))
                        w_raw, w_par = want2[0] if want2 else (None, None)
                        ok2 = got2[0] != "exc" and got2[0] == w_raw and (pub(got2[1]) if got2[1] is not None else None) == (pub(w_par) if w_par is not None else None)
                        if want2 and not ok2:
                            raise Fail("live-reader-differs-from-fresh", f"step {step} ({framing.ref_identity(payload)}): raise-mode reader whose file had ended inside a frame returned {got2[0] if got2[0] == 'exc' else 'another result'}{':' + str(got2[1]) if got2[0] == 'exc' else ''} for the complete frame that followed; a fresh reader returns the frame")
                cls.add("raise-mode-reader-after-a-file-ending-inside-a-frame")
            pos = live_stream.tell()
            live_stream.seek(0, 2)
            live_stream.write(junk + frame)
            live_stream.seek(pos)
            try:
                if op.get("via") == "next":
                    try:
                        raw, parsed = next(live)
                    except StopIteration:
                        raw, parsed = None, None
                elif op.get("via") == "kept-iter":
                    # the application keeps the object iter() gave it and calls next() on it whenever it expects data,
                    # also after it has raised StopIteration at an earlier pause
                    if not kept:
                        kept.append(iter(live))
                    try:
                        raw, parsed = next(kept[0])
                    except StopIteration:
                        raw, parsed = None, None
                elif op.get("via") == "iter-next":
                    # a new iter() on the same reader every time (what each `for` statement does)
                    try:
                        raw, parsed = next(iter(live))
                    except StopIteration:
                        raw, parsed = None, None
                elif op.get("via") == "for-break":
                    # a `for` loop left after its first result, to be resumed by the next loop; the application also
                    # looks at the stream the reader holds
                    raw, parsed = None, None
                    for raw, parsed in live:
                        break
                    if live.datastream is not live_stream:
                        raise Fail("datastream-property", "reader.datastream is not the stream the reader was given")
                else:
                    raw, parsed = live.read()
                res = ("ok", pub(parsed)) if parsed is not None else ("none", None)
            except Exception as e:  # pylint: disable=broad-except
                raw = None
                res = ("exc", type(e).__name__)
            fresh = list(RTCMReader(io.BytesIO(frame), quitonerror=case.get("qoe", 1), validate=lv, parsed=lp))
            fres = ("ok", pub(fresh[0][1])) if fresh and fresh[0][1] is not None else ("none", None)
            fraw = fresh[0][0] if fresh else None
            if (res, raw) != (fres, fraw):
                what = f"long-lived reader {res[0]}{'' if res[0] != 'exc' else ':' + res[1]}, fresh reader over the same frame {fres[0]}"
                raise Fail("live-reader-differs-from-fresh", f"step {step} ({framing.ref_identity(payload)}, validate={lv}, bad trailer={bt}, junk before={len(junk)}B, via {op.get('via', 'read')}): {what}")
            if junk:
                cls.add("live-after-junk")
            if bt and lv == 0:
                cls.add("live-badtrailer-validate0")
            lm = 1  # the live reader was built with labelmsm=1
        else:
            res = do_parse(how, payload, lm)
            key = (payload, lm, "crc" if how == "static-badcrc" else "p")
        ident = framing.ref_identity(payload)
        # same bytes -> same outcome as the first time (msg/static/reader are all the same function of the bytes)
        kk = (payload, lm, "crc" if how == "static-badcrc" else (f"live{bool(op.get('bt'))}" if how == "live" else "p"))
        if kk in first:
            if first[kk] != res:
                a, b = first[kk], res
                what = f"first {a[0]}{'' if a[0] == 'ok' else ':' + str(a[1])}, now {b[0]}{'' if b[0] == 'ok' else ':' + str(b[1])}"
                raise Fail("result-depends-on-history", f"step {step} ({how}, {ident}): {what}")
            if len(set(seen_idents)) >= 2 and failed_before:
                nt = True
            cls.add("re-parse")
        else:
            first[kk] = res
        if how == "static-badcrc" and res[0] == "ok":
            raise Fail("bad-crc-accepted", f"step {step}")
        if how != "static-badcrc":
            check_result(payload, lm, res, how, step)
        if res[0] == "exc":
            failed_before = True
            cls.add("failing-parse")
        elif res[0] == "ok":
            seen_idents.append(ident)
        if table_digest() != BASELINE:
            raise Fail("tables-modified", f"after step {step} ({how}, {ident}): definition / lookup tables differ from their import-time digest")
        cls.add(how)
    return Res(nontrivial=nt, classes=sorted(cls), evals=len(case["ops"]))


@st.composite
def s_history(draw, tier):
    nitems = draw(st.integers(2, 6))
    items = [draw(gen.any_message("small")) for _ in range(nitems)]
    if draw(st.booleans()):
        items.append(draw(st.sampled_from(MSM_IDS).flatmap(lambda i: gen.messages(i, "small"))))
    if draw(st.booleans()):
        items.append({"payload": draw(gen.unknown_payloads("small")).hex()})
    # near-duplicates: the same body bits under a sibling identity (another MSM / IGS constellation), so that any state
    # keyed on part of the message (masks, length, number without sub-type ...) collides
    for it in list(items):
        sib = sibling(it.get("ident"), draw(st.integers(0, 5)))
        if sib and draw(st.integers(0, 2)) != 0:
            items.append({"payload": renumber(bytes.fromhex(it["payload"]), sib).hex(), "ident": sib})
    quiet = [b for b in range(256) if b not in (0xD3, 0xB5, 0x24)]
    junk = st.one_of(
        st.lists(st.sampled_from(quiet), min_size=1, max_size=12).map(lambda l: bytes(l).hex()),
        st.sampled_from([b for b in quiet if b & 0xFC]).map(lambda b: bytes([0xD3, b]).hex()),  # false sync: reserved bits set
    )
    op = st.fixed_dictionaries(
        {
            "i": st.integers(0, 20),
            "how": st.sampled_from(["msg", "msg", "static", "reader", "live", "live", "drain", "static-badcrc"]),
            "pre": st.one_of(st.none(), st.none(), junk),
            "bt": st.sampled_from([0, 0, 1]),
            "via": st.sampled_from(["read", "next", "iter-next", "for-break", "kept-iter", "kept-iter"]),
            "ubx": st.one_of(st.none(), st.none(), st.none(), st.tuples(st.sampled_from([1, 8, 40, 200]), st.integers(0, 300)).map(list)),
            "lm": st.sampled_from([1, 1, 2]),
            "tf": st.one_of(st.none(), st.none(), st.integers(1, 2000)),
            "mut": st.sampled_from([None, None, None, "truncate", "flip", "splice", "ones-from"]),
            "a": st.integers(0, 5000),
            "b": st.integers(0, 5000),
        }
    )
    ops = draw(st.lists(op, min_size=2, max_size=30))
    # make re-parses likely: repeat earlier ops
    extra = draw(st.lists(st.integers(0, len(ops) - 1), min_size=0, max_size=10))
    ops = ops + [dict(ops[k]) for k in extra]
    # immediate repeats: the same operation on the same bytes twice in a row (state keyed on "the last frame")
    for k in sorted(set(draw(st.lists(st.integers(0, len(ops) - 1), min_size=0, max_size=6))), reverse=True):
        ops.insert(k + 1, dict(ops[k]))
    return {"items": items, "ops": ops, "qoe": draw(st.sampled_from([0, 1])), "lv": draw(st.sampled_from([0, 1])), "lparsed": draw(st.sampled_from([True, True, False]))}


MSM_IDS = [str(1070 + 10 * c + l) for c in range(7) for l in range(1, 8)]


def sibling(ident, k):
    """another identity with the same layout: MSM level under another constellation, IGS sub-type under another constellation"""
    if not ident:
        return None
    if ident.startswith("4076_") and ident != "4076_201":
        sub = int(ident[5:])
        bases = [b for b in (20, 40, 60, 80, 100, 120) if b != sub - sub % 20]
        return f"4076_{bases[k % len(bases)] + sub % 20:03d}"
    if ident.isdigit() and 1071 <= int(ident) <= 1137 and 1 <= int(ident) % 10 <= 7:
        cs = [c for c in range(7) if c != (int(ident) - 1070) // 10]
        return str(1070 + 10 * cs[k % len(cs)] + int(ident) % 10)
    return None


# ------------------------------------------------------------------ schedules
def o_sched(case):
    from pv.sched import Scheduler

    jobs = []
    seq = []
    for j in case["jobs"]:
        payload = bytes.fromhex(j["payload"])
        if j.get("mut"):
            payload = mutate(payload, j)[:1023]
        how, lm = j["how"], j["lm"]
        seq.append(do_parse(how, payload, lm))
        check_result(payload, lm, seq[-1], how, "sequential")
        jobs.append(lambda p=payload, h=how, l=lm: do_parse(h, p, l))
    s = Scheduler(jobs, case["choices"])
    res = s.run()
    for k, (r, want) in enumerate(zip(res, seq)):
        if r is None:
            raise HarnessError("scheduler: job produced no result")
        kind, val = r
        if kind == "exc":
            if isinstance(val, Fail):
                raise val
            if isinstance(val, HarnessError):
                raise val
            raise Fail("concurrent-parse-raised", f"job {k}: {type(val).__name__}: {val}")
        if val != want:
            a = want
            what = "values differ" if (a[0] == val[0] == "ok") else f"sequential {a[0]}:{a[1] if a[0] != 'ok' else ''} concurrent {val[0]}:{val[1] if val[0] != 'ok' else ''}"
            raise Fail("result-depends-on-interleaving", f"job {k} ({case['jobs'][k]['how']}): {what}; {s.switches} switches")
    if table_digest() != BASELINE:
        raise Fail("tables-modified", "tables differ from their import-time digest after concurrent parses")
    inside = sum(n for f, n in s.where.items() if f.startswith("_set_attribute") or f in ("_getsatcellmaps", "_do_attributes", "identity", "_get_dict"))
    cls = [f"jobs{len(jobs)}"]
    if any(r[0] == "exc" for r in seq):
        cls.append("with-failing-job")
    if inside >= 10:
        cls.append("switches-inside-decoder>=10")
    return Res(nontrivial=inside >= 10, classes=cls, evals=len(jobs))


@st.composite
def s_sched(draw, tier):
    n = draw(st.integers(2, 4))
    jobs = []
    for _ in range(n):
        c = draw(gen.any_message("small"))
        jobs.append(
            {
                "payload": c["payload"],
                "how": draw(st.sampled_from(["msg", "msg", "static", "reader"])),
                "lm": draw(st.sampled_from([1, 2])),
                "mut": draw(st.sampled_from([None, None, None, "truncate", "flip"])),
                "a": draw(st.integers(0, 5000)),
                "b": draw(st.integers(0, 5000)),
            }
        )
    k = draw(st.integers(0, 3))
    if k == 0:
        # same identity twice: shared per-identity state would collide
        jobs[1] = dict(jobs[0], lm=3 - jobs[0]["lm"])
    elif k == 2 and draw(st.booleans()):
        # two boundary-sized nested messages (thousands of index tuples each)
        for j, big in enumerate(draw(st.lists(st.sampled_from(["1059", "1065", "4076_025", "4076_201"]), min_size=2, max_size=2))):
            jobs[j] = dict(jobs[j], payload=draw(gen.messages(big, "max"))["payload"], mut=None, how="msg")
        jobs = jobs[:2]
    elif k == 1:
        c = draw(st.sampled_from(MSM_IDS).flatmap(lambda i: gen.messages(i, "small")))
        sib = sibling(c["ident"], draw(st.integers(0, 5)))
        jobs[0] = dict(jobs[0], payload=c["payload"], mut=None)
        jobs[1] = dict(jobs[1], payload=renumber(bytes.fromhex(c["payload"]), sib).hex(), mut=None)
    choices = draw(st.lists(st.tuples(st.integers(0, 3), st.one_of(st.integers(1, 4), st.integers(1, 40))), min_size=1, max_size=60))
    return {"jobs": jobs, "choices": [list(c) for c in choices]}


# ------------------------------------------------------------------ free-running stress
NTHREADS = 4


def o_stress(case):
    payloads = [bytes.fromhex(p) for p in case["payloads"]]
    if case.get("big_shapes"):
        payloads += big_workload(case["big_seed"], [tuple(x) for x in case["big_shapes"]])
    want = [do_parse("msg", p, 1 + (k & 1)) for k, p in enumerate(payloads)]
    for k, p in enumerate(payloads):
        check_result(p, 1 + (k & 1), want[k], "msg", "sequential")
    errs = []
    old = sys.getswitchinterval()
    sys.setswitchinterval(1e-6)
    try:
        def work(t):
            try:
                for rep in range(case["reps"]):
                    for k in range(len(payloads)):
                        kk = (k + t) % len(payloads)
                        r = do_parse("msg", payloads[kk], 1 + (kk & 1))
                        if r != want[kk]:
                            errs.append((t, kk))
                            return
            except BaseException as e:  # pylint: disable=broad-except
                errs.append((t, repr(e)))

        ts = [threading.Thread(target=work, args=(t,)) for t in range(NTHREADS)]
        for t in ts:
            t.start()
        for t in ts:
            t.join(120)
    finally:
        sys.setswitchinterval(old)
    if errs:
        raise Fail("result-depends-on-threads", f"free-running: {len(errs)} thread(s) saw a different result, first {errs[0]}")
    if table_digest() != BASELINE:
        raise Fail("tables-modified", "tables differ after free-running threads")
    return Res(nontrivial=True, classes=["stress"], evals=NTHREADS * case["reps"] * len(payloads))


@st.composite
def s_stress(draw, tier):
    n = draw(st.integers(3, 8))
    ps = [draw(gen.any_message("small"))["payload"] for _ in range(n)]
    return {"payloads": ps, "reps": 2 if tier == "quick" else 8, "big_seed": draw(st.integers(0, 2**32 - 1)), "big_shapes": draw(st.lists(st.sampled_from(SHAPES), min_size=4, max_size=6, unique=True))}


SHAPES = [(13, 31), (63, 5), (31, 12), (20, 19), (40, 9), (8, 31), (50, 7)]


def big_workload(seed, shapes):
    """boundary-sized messages of many shapes: thousands of distinct (nested) group index tuples alive in one process,
    so that any bounded cache keyed on them is evicted while other threads are mid-parse"""
    out = []
    for k, (ident, cnt, sub) in enumerate((("1059", "DF387", "DF379"), ("1065", "DF387", "DF379"), ("4076_025", "IDF010", "IDF023"))):
        for nsat, nb in shapes[k % 2 :: 2] if k else shapes:
            fixed = {cnt: nsat}
            for i in range(1, nsat + 1):
                fixed[f"{sub}_{i:02d}"] = nb
            out.append(gen.hashed_message(ident, seed + k, fixed))
    out.append(gen.hashed_message("1029", seed, {"DF138": 127, "DF139": 255}))
    out.append(gen.hashed_message("1033", seed, {"DF029": 200, "DF032": 150, "DF227": 255, "DF229": 100, "DF231": 90}))
    vt = {"IDF035": 2}
    for lyr, (n, m) in enumerate(((12, 12), (9, 5), (14, 2)), 1):
        vt[f"IDF037_{lyr:02d}"] = n
        vt[f"IDF038_{lyr:02d}"] = m
    out.append(gen.hashed_message("4076_201", seed, vt))
    return out


# ------------------------------------------------------------------ concurrent FIRST use in a fresh interpreter
def o_cold(case):
    """several threads parse and checksum at once in a process that has not parsed anything yet (lazily built tables
    and indexes are built exactly then); every result must equal the sequential one"""
    from pv import child
    from pv.framing import crc_table

    payloads = [bytes.fromhex(p) for p in case["payloads"]]
    frames = [framing.build_frame(p) for p in payloads]
    want = [do_parse("msg", p, 1 + (k & 1)) for k, p in enumerate(payloads)]
    for rep in range(case["children"]):
        out = child.cold_start_threads(payloads, frames, threads=case["threads"])
        for t, r in out.items():
            for kk, kind, val in r["parse"]:
                got = ("ok", [(a, v) for a, v in val]) if kind == "ok" else ("exc", val)
                if got != (want[kk][0], [(a, v) for a, v in want[kk][1]] if want[kk][0] == "ok" else want[kk][1]):
                    raise Fail("cold-start-result-differs", f"fresh interpreter, thread {t}, message {kk} ({framing.ref_identity(payloads[kk])}): sequential {want[kk][0]}, concurrent first use {kind}{'' if kind == 'ok' else ':' + str(val)}")
            for kk, a, b in r["crc"]:
                if a == "exc" or a != crc_table(frames[kk][:-3]) or b != 0:
                    raise Fail("cold-start-crc-differs", f"fresh interpreter, thread {t}: calc_crc24q gave {a!r}/{b!r}, reference {crc_table(frames[kk][:-3]):#x}/0")
    return Res(nontrivial=True, classes=["cold-start"], evals=case["children"] * case["threads"] * len(payloads))


@st.composite
def s_cold(draw, tier):
    ids = draw(st.lists(st.sampled_from(gen.all_idents_safe()), min_size=3, max_size=6))
    # late entries of every table, so that a half-built lookup structure is missing them
    ids += ["1305", "1137", "4076_201", "4076_127"]
    return {"payloads": [draw(gen.messages(i, "small"))["payload"] for i in ids], "threads": 6, "children": 3 if tier == "quick" else 8}


def _short(c):
    c = dict(c)
    for k in ("items", "jobs"):
        if k in c:
            c[k] = [{**i, "payload": i["payload"][:60] + ("..." if len(i["payload"]) > 60 else "")} for i in c[k]]
    if "payloads" in c:
        c["payloads"] = [p[:60] for p in c["payloads"]]
    if "ops" in c:
        c["ops"] = c["ops"][:12]
    return c


SUBS = [
    Sub("parse_histories", o_history, strategy=s_history, examples=(60, 1200), rule="re-parse after a different identity and a failing parse", need={"re-parse": 1, "failing-parse": 1, "live": 1, "drain": 1, "live-after-junk": 1, "live-badtrailer-validate0": 1, "live-after-truncated-ubx": 1, "raise-mode-reader-after-a-file-ending-inside-a-frame": 1}, sample=_short),
    Sub("deterministic_schedules", o_sched, strategy=s_sched, examples=(10, 200), rule=">= 10 context switches inside the decoder", need={"switches-inside-decoder>=10": 1}, sample=_short),
    Sub("cold_start_concurrent_first_use", o_cold, strategy=s_cold, examples=(1, 10), rule="every case: fresh interpreters with 6 threads starting together", sample=_short),
    Sub("free_running_threads", o_stress, strategy=s_stress, examples=(3, 20), rule="every case (8 threads)", sample=_short),
]
