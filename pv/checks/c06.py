"""C06 - fields are never read past the end of the payload."""

from hypothesis import strategies as st

from pv import framing, gen, model
from pv.core import Fail, Res, Sub, digest
from pv.checks.c03 import compare, ident_strategy
from pv.checks.c04 import mutate

PROPERTY = "C06"
RULE = (
    "for every defined identity: complete minimal payloads built by the independent interpreter, then EVERY whole-byte "
    "truncation from full-1 down to the identity header (2 bytes, 3 for 4076) must be rejected (enumerated, not sampled); "
    "plus a differential on arbitrary / mutated payloads under a defined number: the constructor returns iff the interpreter "
    "in decode mode (explicit offset+width <= length test) does not overrun, and then all values agree. Non-trivial: a cut that "
    "falls inside or before a repeated / optional group (truncations); payload not accepted as built (differential). "
    "Distinct by (identity, payload, cut)."
)
ASSUMPTIONS = ["'parsing fails' = any exception leaves the constructor (its type is C04's business)"]


def o_trunc(case):
    from pyrtcm import RTCMMessage, RTCMReader

    if case.get("checkdef"):
        return Res(False, ["definition-unwalkable"])
    payload = bytes.fromhex(case["payload"])
    ident, w = model.decode(payload)
    full = w.payload(0)  # minimal byte length, zero padding
    RTCMMessage(payload=full)  # the complete message itself must parse
    hdr = 3 if ident.startswith("4076") else 2
    # first bit of the first group / optional part
    first_group_bit = next((it.bit0 for it in w.items if it.idx), None)
    cnt = 0
    evals = 0
    cls = set()
    for cut in range(len(full) - 1, hdr - 1, -1):
        t = full[:cut]
        evals += 1
        try:
            m = RTCMMessage(payload=t)
        except Exception:  # pylint: disable=broad-except
            m = None
        if m is not None:
            # which attribute was fed from beyond the cut?
            beyond = next((it.attr for it in w.items if it.bit0 + it.width > cut * 8 and it.width), "?")
            raise Fail("truncated-message-accepted", f"{ident}: {len(full)}-byte message cut to {cut} bytes was accepted (field {beyond} lies beyond the cut); payload {full.hex()[:120]}")
        if len(full) - cut <= 3 or cut == hdr:
            # the same cut message inside a transport frame handed to the static parser (checksum right, validation
            # on and off), also with the six reserved header bits set: parse() takes the frame as it comes
            for resv in (0, 1 + (cut * 7) % 63):
                head = bytes([0xD3, (resv << 2) | (cut >> 8), cut & 0xFF]) + t
                c = framing.crc_table(head)
                fr = head + c.to_bytes(3, "big")
                for val in (1, 0):
                    evals += 1
                    try:
                        m = RTCMReader.parse(fr, validate=val)
                    except Exception:  # pylint: disable=broad-except
                        m = None
                    if m is not None:
                        raise Fail("truncated-message-accepted", f"{ident}: {len(full)}-byte message cut to {cut} bytes and framed (reserved bits {resv:06b}, checksum right) was accepted by RTCMReader.parse(validate={val}); frame {fr.hex()[:120]}")
            cls.add("framed-cut-through-static-parser")
        inside_group = first_group_bit is not None and cut * 8 > first_group_bit
        before_group = first_group_bit is not None and cut * 8 <= first_group_bit
        if inside_group:
            cls.add("cut-inside-group")
        if before_group:
            cls.add("cut-before-group")
        if cut == hdr:
            cls.add("cut-right-after-header")
        if cut == len(full) - 1:
            cls.add("cut-inside-last-field")
        if "NSat" in w.vals and cut * 8 < 169 + w.vals["NSat"] * w.vals["NSig"]:
            cls.add("cut-inside-msm-masks")
        if inside_group or before_group:
            cnt += 1
    return Res(nontrivial=bool(cnt), classes=sorted(cls), evals=evals, count=cnt)


def plan_trunc(tier, shard, nshards):
    ids = gen.all_idents()[shard::nshards]
    n = 8 if tier == "quick" else 120
    return [(i, ident_strategy(i, "small" if tier == "quick" else "mixed"), n) for i in ids]


# ------------------------------------------------------------------ differential accept / reject
def o_diff(case):
    from pyrtcm import RTCMMessage

    p = bytes.fromhex(case["payload"])
    if "mut" in case:
        p = mutate(p, case)
    ident = framing.ref_identity(p)
    if ident is None or model.definition(ident) is None:
        return Res(False, ["undefined-after-mutation"])
    try:
        _, w = model.decode(p, ident)
        fits = True
    except model.Overrun:
        w = None
        fits = False
    try:
        m = RTCMMessage(payload=p)
    except Exception as e:  # pylint: disable=broad-except
        m = None
        err = e
    if m is None and fits:
        raise Fail("complete-message-rejected", f"{ident}: all fields fit in {len(p)} bytes but the constructor raised {type(err).__name__}: {err}; payload {p.hex()[:120]}")
    if m is not None and not fits:
        raise Fail("overrunning-message-accepted", f"{ident}: fields need more than the {len(p)} bytes supplied but a message was returned; payload {p.hex()[:120]}")
    if m is not None:
        compare(p, w, m, "diff")
    return Res(nontrivial=True, classes=["fits" if fits else "overruns", "mutated" if "mut" in case else "arbitrary"])


@st.composite
def s_diff(draw, tier):
    if draw(st.booleans()):
        from pv.checks.c04 import s_ctor

        c = draw(s_ctor(tier))
        return c
    c = draw(gen.any_message("mixed"))
    c["mut"] = draw(st.sampled_from(["truncate", "flip", "splice", "ones-from", "zeros-from", "extend"]))
    c["a"] = draw(st.integers(0, 10**6))
    c["b"] = draw(st.integers(0, 10**6))
    return c


# ------------------------------------------------------------------ truncation through the stream reader (validation off)
def o_reader(case):
    """a complete frame, then frames whose length field and payload are cut short while the three trailer bytes are
    stale (those of the complete transmission) / zero / arbitrary; with validate=0 nothing but the payload decides:
    no message may be delivered for a cut frame"""
    import io

    from pyrtcm import RTCMReader

    payload = bytes.fromhex(case["payload"])
    ident, w = model.decode(payload)
    full = w.payload(0)
    good = framing.build_frame(full)
    hdr = 3 if ident.startswith("4076") else 2
    cuts = sorted({len(full) - 1, max(hdr, len(full) // 2), hdr, max(hdr, len(full) - 2)} | {hdr + (case["k"] + j * 7) % max(1, len(full) - hdr) for j in range(4)})
    cuts = [c for c in cuts if hdr <= c < len(full)]
    evals = 0
    for trailer_kind in ("stale", "zero", "own"):
        frames_ = [good]
        for c in cuts:
            body = bytes([0xD3, c >> 8, c & 0xFF]) + full[:c]
            tr = good[-3:] if trailer_kind == "stale" else (b"\0\0\0" if trailer_kind == "zero" else framing.crc_table(body).to_bytes(3, "big"))
            frames_.append(body + tr)
            frames_.append(good)
        rdr = RTCMReader(io.BytesIO(b"".join(frames_)), validate=0, quitonerror=case["qoe"])
        got = []
        for _ in range(len(frames_) + 4):
            try:
                raw, parsed = rdr.read()
            except Exception:  # pylint: disable=broad-except
                continue  # raise mode: the cut frame is reported, fine
            if raw is None and parsed is None:
                break
            got.append((raw, parsed))
        evals += len(frames_)
        for raw, parsed in got:
            if len(raw) - 6 < len(full) and parsed is not None:
                raise Fail("truncated-frame-delivered-by-reader", f"{ident}: reader (validate=0, {trailer_kind} trailer bytes) delivered a parsed message for a payload cut to {len(raw) - 6} of {len(full)} bytes")
        if sum(1 for raw, _ in got if raw == good) != len(cuts) + 1:
            raise Fail("complete-frame-lost-by-reader", f"{ident}: {sum(1 for raw, _ in got if raw == good)} of {len(cuts) + 1} complete frames delivered (validate=0, {trailer_kind} trailers)")
    return Res(nontrivial=bool(cuts), classes=[f"qoe{case['qoe']}"], evals=evals)


@st.composite
def s_reader(draw, ids):
    c = draw(gen.messages(draw(st.sampled_from(ids)), "small"))
    c["k"] = draw(st.integers(0, 500))
    c["qoe"] = draw(st.sampled_from([0, 1, 2]))
    return c


def plan_reader(tier, shard, nshards):
    ids = gen.all_idents_safe()[shard::nshards]
    return [("", s_reader(ids), 40 if tier == "quick" else 800)] if ids else []


# ------------------------------------------------------------------ the same guarantee in an optimised interpreter (python -O)
_CHILD = r"""
import sys
from pyrtcm import RTCMMessage
for line in sys.stdin:
    p = bytes.fromhex(line.strip())
    hdr = 3 if (p[0] << 4 | p[1] >> 4) == 4076 else 2
    try:
        RTCMMessage(payload=p)
    except Exception as e:
        print("REJECT-FULL", line.strip()[:40], type(e).__name__)
        continue
    for cut in range(len(p) - 1, hdr - 1, -1):
        try:
            RTCMMessage(payload=p[:cut])
            print("ACCEPT", cut, len(p), line.strip())
            break
        except Exception:
            pass
print("DONE")
"""


def o_optimized(case):
    """every truncation of a batch of complete messages, decided in a child interpreter started with -O (asserts
    compiled out): validation that lives in an assert statement is no validation"""
    import os
    import subprocess
    import sys

    from pv import core

    fulls = []
    for c in case["batch"]:
        _, w = model.decode(bytes.fromhex(c))
        fulls.append(w.payload(0).hex())
    env = dict(os.environ, PYTHONPATH=core.REPO_SRC, PYTHONOPTIMIZE="1")
    r = subprocess.run([sys.executable, "-O", "-c", _CHILD], input="\n".join(fulls) + "\n", capture_output=True, text=True, env=env, timeout=600, check=False)
    if "DONE" not in r.stdout:
        raise core.HarnessError(f"optimised child failed: {r.stderr[-300:]}")
    for line in r.stdout.splitlines():
        if line.startswith("ACCEPT"):
            _, cut, n, hx = line.split()
            raise Fail("truncated-message-accepted-under-O", f"python -O: a {n}-byte message cut to {cut} bytes was accepted; payload {hx[:80]}")
        if line.startswith("REJECT-FULL"):
            raise Fail("complete-message-rejected-under-O", line)
    return Res(nontrivial=True, classes=["python-O"], evals=sum(len(f) // 2 for f in fulls))


@st.composite
def s_optimized(draw, tier):
    ids = gen.all_idents_safe()
    batch = [draw(gen.messages(draw(st.sampled_from(ids)), "small"))["payload"] for _ in range(12)]
    return {"batch": batch}


def _short(c):
    if "batch" in c:
        return {"batch": [b[:60] for b in c["batch"][:3]], "n": len(c["batch"])}
    c = dict(c)
    if len(c.get("payload", "")) > 160:
        c["payload_len"] = len(c["payload"]) // 2
        c["payload"] = c["payload"][:160] + "..."
    return c


SUBS = [
    Sub(
        "all_truncations",
        o_trunc,
        plan=plan_trunc,
        exhaustive=True,
        rule="every whole-byte cut of every generated message is tried (exhaustive per message); non-trivial cuts fall inside or before a group",
        need={"cut-inside-group": 1, "cut-right-after-header": 1, "cut-inside-msm-masks": 1},
        sample=_short,
    ),
    Sub("truncation_via_reader_validate0", o_reader, plan=plan_reader, rule="at least one cut frame in the stream", sample=_short),
    Sub("all_truncations_python_O", o_optimized, strategy=s_optimized, examples=(2, 20), rule="every case (12 messages x all cuts in a python -O child)", sample=_short),
    Sub("accept_iff_fits", o_diff, strategy=s_diff, examples=(400, 10000), rule="payload under a defined number", need={"fits": 1, "overruns": 1}, sample=_short),
    __import__("pv.fuzz.campaign", fromlist=["make"]).make("C06", ("C06",), runs=(15000, 400000), shards=(4, 16)),
]
