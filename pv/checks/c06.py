"""C06 - fields are never read past the end of the payload."""

from hypothesis import strategies as st

from pv import framing, gen, model
from pv.core import Fail, Res, Sub, digest
from pv.checks.c03 import compare, ident_strategy
from pv.checks.c04 import mutate

PROPERTY = "C06"
RULE = (
    "for every defined identity: complete minimal payloads built by the independent interpreter, then EVERY whole-byte "
    "truncation from full-1 down to the identity header (2 bytes, 3 for 4076) must be rejected (enumerated, not sampled); "
    "plus a differential on arbitrary / mutated payloads under a defined number: the constructor returns iff the interpreter "
    "in decode mode (explicit offset+width <= length test) does not overrun, and then all values agree. Non-trivial: a cut that "
    "falls inside or before a repeated / optional group (truncations); payload not accepted as built (differential). "
    "Distinct by (identity, payload, cut)."
)
ASSUMPTIONS = ["'parsing fails' = any exception leaves the constructor (its type is C04's business)"]


def o_trunc(case):
    from pyrtcm import RTCMMessage

    if case.get("checkdef"):
        return Res(False, ["definition-unwalkable"])
    payload = bytes.fromhex(case["payload"])
    ident, w = model.decode(payload)
    full = w.payload(0)  # minimal byte length, zero padding
    RTCMMessage(payload=full)  # the complete message itself must parse
    hdr = 3 if ident.startswith("4076") else 2
    # first bit of the first group / optional part
    first_group_bit = next((it.bit0 for it in w.items if it.idx), None)
    digs = []
    evals = 0
    cls = set()
    for cut in range(len(full) - 1, hdr - 1, -1):
        t = full[:cut]
        evals += 1
        try:
            m = RTCMMessage(payload=t)
        except Exception:  # pylint: disable=broad-except
            m = None
        if m is not None:
            # which attribute was fed from beyond the cut?
            beyond = next((it.attr for it in w.items if it.bit0 + it.width > cut * 8 and it.width), "?")
            raise Fail("truncated-message-accepted", f"{ident}: {len(full)}-byte message cut to {cut} bytes was accepted (field {beyond} lies beyond the cut); payload {full.hex()[:120]}")
        inside_group = first_group_bit is not None and cut * 8 > first_group_bit
        before_group = first_group_bit is not None and cut * 8 <= first_group_bit
        if inside_group:
            cls.add("cut-inside-group")
        if before_group:
            cls.add("cut-before-group")
        if cut == hdr:
            cls.add("cut-right-after-header")
        if cut == len(full) - 1:
            cls.add("cut-inside-last-field")
        if "NSat" in w.vals and cut * 8 < 169 + w.vals["NSat"] * w.vals["NSig"]:
            cls.add("cut-inside-msm-masks")
        if inside_group or before_group:
            digs.append(digest([ident, case["payload"], cut]))
    return Res(nontrivial=bool(digs), classes=sorted(cls), evals=evals, digests=digs)


def plan_trunc(tier, shard, nshards):
    ids = gen.all_idents()[shard::nshards]
    n = 8 if tier == "quick" else 120
    return [(i, ident_strategy(i, "small" if tier == "quick" else "mixed"), n) for i in ids]


# ------------------------------------------------------------------ differential accept / reject
def o_diff(case):
    from pyrtcm import RTCMMessage

    p = bytes.fromhex(case["payload"])
    if "mut" in case:
        p = mutate(p, case)
    ident = framing.ref_identity(p)
    if ident is None or model.definition(ident) is None:
        return Res(False, ["undefined-after-mutation"])
    try:
        _, w = model.decode(p, ident)
        fits = True
    except model.Overrun:
        w = None
        fits = False
    try:
        m = RTCMMessage(payload=p)
    except Exception as e:  # pylint: disable=broad-except
        m = None
        err = e
    if m is None and fits:
        raise Fail("complete-message-rejected", f"{ident}: all fields fit in {len(p)} bytes but the constructor raised {type(err).__name__}: {err}; payload {p.hex()[:120]}")
    if m is not None and not fits:
        raise Fail("overrunning-message-accepted", f"{ident}: fields need more than the {len(p)} bytes supplied but a message was returned; payload {p.hex()[:120]}")
    if m is not None:
        compare(p, w, m, "diff")
    return Res(nontrivial=True, classes=["fits" if fits else "overruns", "mutated" if "mut" in case else "arbitrary"])


@st.composite
def s_diff(draw, tier):
    if draw(st.booleans()):
        from pv.checks.c04 import s_ctor

        c = draw(s_ctor(tier))
        return c
    c = draw(gen.any_message("mixed"))
    c["mut"] = draw(st.sampled_from(["truncate", "flip", "splice", "ones-from", "zeros-from", "extend"]))
    c["a"] = draw(st.integers(0, 10**6))
    c["b"] = draw(st.integers(0, 10**6))
    return c


def _short(c):
    c = dict(c)
    if len(c.get("payload", "")) > 160:
        c["payload_len"] = len(c["payload"]) // 2
        c["payload"] = c["payload"][:160] + "..."
    return c


SUBS = [
    Sub(
        "all_truncations",
        o_trunc,
        plan=plan_trunc,
        exhaustive=True,
        rule="every whole-byte cut of every generated message is tried (exhaustive per message); non-trivial cuts fall inside or before a group",
        need={"cut-inside-group": 1, "cut-right-after-header": 1, "cut-inside-msm-masks": 1},
        sample=_short,
    ),
    Sub("accept_iff_fits", o_diff, strategy=s_diff, examples=(400, 10000), rule="payload under a defined number", need={"fits": 1, "overruns": 1}, sample=_short),
]
