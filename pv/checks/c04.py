"""C04 - parsing is total: only the library's own errors, and it always terminates."""

import hashlib
import io

from hypothesis import strategies as st

from pv import core  # noqa: E402
from pv import framing, gen, model, streams
from pv.core import Fail, Res, Sub, lib_frame
from pv.doubles import BudgetBytesIO, HardStop, ScriptedStream

PROPERTY = "C04"
RULE = (
    "(a) arbitrary bytes 0..1029 and an enumeration of all 4096 message numbers x short lengths into RTCMMessage; "
    "(b) structure-aware mutations of model-built messages (truncation, counters/masks forced to maximum, bodies spliced "
    "across types, bit flips, 4076_201 with order > degree); (c) arbitrary and CRC-valid-but-nonsensical buffers into "
    "RTCMReader.parse with validate 0/1; (d) adversarial streams x read scripts iterated with `for` under ignore/log/raise. "
    "Oracle: outcome is an object, StopIteration or one of the classes of pyrtcm.exceptions; in ignore/log modes the iterator "
    "raises nothing; a deterministic bound on stream calls stands for termination. Non-trivial: the input reaches the decoder of a "
    "defined identity and is not a plain valid message, or the stream holds >= 1 error-path item."
)
ASSUMPTIONS = [
    "termination is decided as a bound on stream calls (len(data) + len(script) + slack), not on CPU time",
    "KeyboardInterrupt / MemoryError would be harness errors",
]


def lib_errors():
    import pyrtcm.exceptions as E

    return tuple(getattr(E, n) for n in ("ParameterError", "RTCMParseError", "RTCMStreamError", "RTCMMessageError", "RTCMTypeError"))


def guarded(fn, what):
    """run fn; returns ('ok', value) or ('err', exc) for library errors; foreign exceptions -> Fail"""
    try:
        return "ok", fn()
    except lib_errors() as e:
        return "err", e
    except (Fail, HardStop):
        raise
    except Exception as e:  # pylint: disable=broad-except
        raise Fail(f"foreign-exception:{type(e).__name__}@{lib_frame(e)}", f"{what}: {type(e).__name__}: {e}") from e


# ------------------------------------------------------------------ (a) constructor on arbitrary bytes
def o_ctor(case):
    from pv.core import diagnostics

    with diagnostics(bool(case.get('diag'))):
        return _o_ctor(case)


def _o_ctor(case):
    from pyrtcm import RTCMMessage

    p = bytes.fromhex(case["payload"])
    core.note_input(len(p) + 16)
    evals = 0
    kinds = set()
    for lm in (1, 2):
        k, v = guarded(lambda: RTCMMessage(payload=p, labelmsm=lm), f"RTCMMessage({p.hex()[:60]}.. len {len(p)})")
        evals += 1
        kinds.add(k)
    ident = framing.ref_identity(p)
    defined = ident is not None and model.definition(ident) is not None
    cls = ["len%d" % len(p) if len(p) <= 3 else "len>3", "defined" if defined else "undefined"] + sorted(kinds)
    return Res(nontrivial=defined and "err" in kinds or len(p) <= 3, classes=cls, evals=evals)


def s_ctor(tier):
    raw = st.one_of(st.binary(min_size=0, max_size=8), st.binary(min_size=0, max_size=1029), st.sampled_from([b"", b"\x00", b"\xff", b"\xfe\xc0", b"\xfe\xcf", b"\x3e"]))

    @st.composite
    def headed(draw):
        ident = draw(st.sampled_from(gen.all_idents()))
        n, sub = model.ident_numbers(ident)
        if sub is None:
            hb = bytes([n >> 4, ((n & 0xF) << 4) | draw(st.integers(0, 15))])
        else:
            hb = ((((n << 3) | draw(st.integers(0, 7))) << 8 | sub) << 1 | draw(st.integers(0, 1))).to_bytes(3, "big")
        ln = draw(st.one_of(st.integers(0, 40), st.integers(0, 1020)))
        body = draw(st.one_of(st.binary(min_size=ln, max_size=ln), st.sampled_from([b"\x00", b"\xff"]).map(lambda c: c * ln)))
        return hb + body

    return st.builds(lambda b, d: {"payload": b.hex(), "diag": d}, st.one_of(raw, headed(), headed()), st.booleans())


def e_ctor(tier, shard, nshards):
    """all 4096 message numbers x short lengths x fill patterns (complete)"""
    maxlen = 10 if tier == "quick" else 40
    for n in range(shard, 4096, nshards):
        for ln in range(0, maxlen + 1):
            for fill in ("00", "ff", "h"):
                hb = bytes([n >> 4, (n & 0xF) << 4 | (0xF if fill == "ff" else 0)])
                if fill == "h":
                    body = hashlib.blake2b(f"{n}|{ln}".encode(), digest_size=max(1, ln)).digest()[:ln]
                else:
                    body = bytes.fromhex(fill) * ln
                yield {"payload": (hb + body)[:ln].hex(), "diag": bool(n & 1)}


# ------------------------------------------------------------------ (b) structure-aware mutations
def mutate(p, case):
    kind = case["mut"]
    a, b = case["a"], case["b"]
    if kind == "truncate":
        return p[: a % (len(p) + 1)]
    if kind == "flip":
        q = bytearray(p)
        for k in range(1 + b % 4):
            pos = (a + k * 7919) % (len(q) * 8)
            q[pos >> 3] ^= 0x80 >> (pos & 7)
        return bytes(q)
    if kind == "splice":
        ids = gen.all_idents()
        n, sub = model.ident_numbers(ids[a % len(ids)])
        q = bytearray(p)
        if len(q) >= 3:
            q[0] = n >> 4
            q[1] = (n & 0xF) << 4 | (q[1] & 0xF)
            if sub is not None:
                q[1] = (q[1] & 0xFE) | (sub >> 7)
                q[2] = ((sub & 0x7F) << 1) | (q[2] & 1)
        return bytes(q)
    if kind == "ones-from":
        cut = a % (len(p) + 1)
        return p[:cut] + b"\xff" * min(len(p) - cut + (b % 8), 1023 - cut)
    if kind == "zeros-from":
        cut = a % (len(p) + 1)
        return p[:cut] + b"\x00" * (len(p) - cut)
    if kind == "extend":
        return (p + bytes([a & 0xFF]) * (b % 64))[:1023]
    return p


def o_mut(case):
    from pyrtcm import RTCMMessage, RTCMReader

    p0 = bytes.fromhex(case["payload"])
    core.note_input(len(p0) + 16)
    p = mutate(p0, case)
    k, v = guarded(lambda: RTCMMessage(payload=p), f"mutation {case['mut']} of {case['ident']}: RTCMMessage({p.hex()[:60]}.. len {len(p)})")
    if len(p) <= 1023:
        f = framing.build_frame(p)
        guarded(lambda: RTCMReader.parse(f, validate=1), "static parse of framed mutation")
    return Res(nontrivial=p != p0, classes=[case["mut"], k], evals=2)


@st.composite
def s_mut(draw, tier):
    c = draw(gen.any_message("mixed", gen.all_idents_safe()))
    c["mut"] = draw(st.sampled_from(["truncate", "flip", "flip", "splice", "ones-from", "zeros-from", "extend"]))
    c["a"] = draw(st.integers(0, 10**6))
    c["b"] = draw(st.integers(0, 10**6))
    return c


def o_vtec(case):
    """4076_201 bodies with arbitrary degree/order (incl. order > degree) and arbitrary length"""
    from pyrtcm import RTCMMessage
    from pyrtcm.rtcmhelpers import parse_4076_201

    p = bytes.fromhex(case["payload"])
    core.note_input(len(p) + 16)
    k, v = guarded(lambda: RTCMMessage(payload=p), f"4076_201 body {p.hex()[:80]}")
    return Res(nontrivial=True, classes=[k])


@st.composite
def s_vtec(draw, tier):
    head = (((4076 << 3) | draw(st.integers(0, 7))) << 8 | 201) << 1 | draw(st.integers(0, 1))
    ln = draw(st.one_of(st.integers(0, 30), st.integers(0, 1020)))
    body = draw(st.one_of(st.binary(min_size=ln, max_size=ln), st.sampled_from([b"\xff", b"\x00", b"\x0f", b"\xf0"]).map(lambda c: c * ln)))
    return {"payload": (head.to_bytes(3, "big") + body).hex()}


# ------------------------------------------------------------------ (c) static parser on arbitrary buffers
def o_static(case):
    from pv.core import diagnostics

    with diagnostics(bool(case.get('diag'))):
        return _o_static(case)


def _o_static(case):
    from pyrtcm import RTCMReader

    buf = bytes.fromhex(case["buf"])
    core.note_input(len(buf) + 16)
    kinds = set()
    for val in (0, 1):
        k, _ = guarded(lambda: RTCMReader.parse(buf, validate=val), f"RTCMReader.parse({buf.hex()[:60]}.. len {len(buf)}, validate={val})")
        kinds.add(f"v{val}-{k}")
    cls = ["buflen<=6" if len(buf) <= 6 else "buflen>6"] + sorted(kinds)
    return Res(nontrivial=True, classes=cls, evals=2)


@st.composite
def s_static(draw, tier):
    kind = draw(st.integers(0, 4))
    if kind == 0:
        buf = draw(st.binary(min_size=0, max_size=7))
    elif kind == 1:
        buf = draw(st.binary(min_size=0, max_size=1029))
    elif kind == 2:  # CRC-valid nonsense under a defined number
        c = draw(s_ctor(tier))
        p = bytes.fromhex(c["payload"])[:1023]
        buf = framing.build_frame(p)
    elif kind == 3:  # valid frame, cut or extended
        f = framing.build_frame(draw(gen.valid_payloads(tier, "small")))
        cut = draw(st.integers(0, len(f)))
        buf = f[:cut] + draw(st.binary(min_size=0, max_size=3))
    else:
        n = draw(st.integers(0, 8))
        buf = draw(st.sampled_from([b"\xd3", b"\x00", b"\xff"])) * n
    return {"buf": buf.hex(), "diag": draw(st.booleans())}


# ------------------------------------------------------------------ (d) iteration over adversarial streams
def o_iter(case):
    from pv.core import diagnostics

    with diagnostics(bool(case.get("debug"))):
        return _o_iter(case)


def _o_iter(case):
    from pyrtcm import RTCMReader

    items = case["items"]
    data = streams.join(items)
    qoe = case["qoe"]
    sock = None
    if case["stream"] == "scripted":
        stream = ScriptedStream(data, case["script"], slack=32)
    elif case["stream"] == "chunked-socket":
        # the same bytes as an HTTP chunked body (optionally compressed per chunk, codings may be OR'd) over a socket
        from pv.checks import c12
        from pv.doubles import ScriptedSocket

        step = max(1, case["chunk"])
        cc = {"chunks": [data[i : i + step].hex() for i in range(0, len(data), step)], "enc": case["enc"], "hexcase": [0], "terminator": True}
        encoded, _ = c12.encode(cc)
        if case.get("badchunk"):
            # a correctly framed chunk whose body is a damaged compressed stream (cut short, or with flipped bytes),
            # in front of the well-formed ones: arbitrary bytes are the domain, whatever the transfer coding
            kind, k = case["badchunk"]
            body = c12.compress(data[:200] or b"RTCM", case["enc"])
            body = body[: max(1, len(body) - k)] if kind == "cut" else bytes(b ^ (0x40 if (i + k) % 5 == 0 else 0) for i, b in enumerate(body))
            encoded = f"{len(body):x}".encode() + b"\r\n" + body + b"\r\n" + encoded
        if case.get("rawchunked"):
            # NOT a chunked body at all (e.g. the tail of a response header, text lines, binary): still only library errors
            encoded = bytes.fromhex(case["rawchunked"]) + data
        # "close": the peer closes; "dead": the connection breaks - every further recv() raises ConnectionResetError
        sock = ScriptedSocket(streams.split(encoded, [c for c in case["cuts"] if 0 < c < len(encoded)]) + [case.get("end", "close")])
        sock.budget = 6 * len(encoded) + 256
        stream = sock
    elif case["stream"] == "socket":
        # a plain TCP socket (no transfer coding), generated segmentation
        from pv.doubles import ScriptedSocket

        sock = ScriptedSocket(streams.split(data, [c for c in case.get("cuts", []) if 0 < c < len(data)]) + [case.get("end", "close")])
        sock.budget = 6 * len(data) + 256
        stream = sock
    elif case["stream"] == "nonseekable":
        # a pipe / serial-like object: has seek() and tell() attributes (io.BufferedReader) but cannot seek
        import io

        class _Raw(io.RawIOBase):
            def __init__(self, d):
                self.d, self.p, self.calls = d, 0, 0

            def readable(self):
                return True

            def seekable(self):
                return False

            def readinto(self, b):
                self.calls += 1
                if self.calls > len(self.d) + 64:
                    raise Fail("non-termination", f"raw stream read {self.calls} times for {len(self.d)} bytes")
                n = min(len(b), len(self.d) - self.p)
                b[:n] = self.d[self.p : self.p + n]
                self.p += n
                return n

        core.note_input(len(data) + 16)
        stream = io.BufferedReader(_Raw(data), buffer_size=case.get("chunk", 64) or 64)
    else:
        stream = BudgetBytesIO(data)
    calls = []
    try:
        rdr = RTCMReader(stream, validate=case["validate"], quitonerror=qoe, parsed=case["parsed"], errorhandler=((lambda e: calls.append(e) or True) if case["handler"] == 2 else (lambda e: calls.append(e))) if case["handler"] else None, **({"bufsize": 4096} if case["stream"] == "socket" else {"encoding": __import__("pv.checks.c12", fromlist=["ENC"]).ENC[case["enc"]], "bufsize": 4096} if sock is not None else {}))
        return _iterate(case, rdr, stream, data, qoe, sock)
    except (Fail, HardStop):
        raise
    except lib_errors() as e:
        raise Fail(f"constructor-raised:{type(e).__name__}", f"RTCMReader(...) raised {type(e).__name__}: {e}") from e
    except Exception as e:  # pylint: disable=broad-except
        raise Fail(f"foreign-exception:{type(e).__name__}@{lib_frame(e)}", f"reader over {case['stream']} (encoding {case.get('enc')}): {type(e).__name__}: {e}") from e
    finally:
        if sock is not None:
            sock.close()


def _iterate(case, rdr, stream, data, qoe, sock):
    items = case["items"]
    n = 0
    raised = 0
    it = iter(rdr)
    limit = 2 * (len(data) + len(case["script"])) + 64
    while True:
        n += 1
        if n > limit:
            raise Fail("non-termination", f"iterator did not finish within {limit} steps over {len(data)} bytes")
        try:
            next(it)
        except StopIteration:
            # an application's `for` loop ends here; with injected empty reads data may remain: go on like a polling loop
            if case["stream"] != "scripted" or stream.exhausted:
                break
            continue
        except lib_errors() as e:
            if qoe != 2:
                raise Fail(f"iterator-raised-in-mode-{qoe}:{type(e).__name__}", f"{type(e).__name__}: {e}") from e
            raised += 1
        except (Fail, HardStop):
            raise
        except Exception as e:  # pylint: disable=broad-except
            raise Fail(f"foreign-exception:{type(e).__name__}@{lib_frame(e)}", f"iteration (quitonerror={qoe}): {type(e).__name__}: {e}") from e
    hostile = any(i["k"] in ("damaged", "decoy", "filler") or i.get("arbitrary") or i.get("syncy") for i in items)
    cls = [f"qoe{qoe}", case["stream"], "raised" if raised else "quiet"] + (["long-run"] if case.get("long") else []) + (["socket-starts-with-a-response-header"] if items and items[0].get("response") else [])
    return Res(nontrivial=hostile or bool(case["script"]), classes=cls)


@st.composite
def s_iter(draw, tier):
    items = streams.flatten(draw(st.lists(streams.adversarial_items("small"), min_size=1, max_size=10)))
    kind = draw(st.sampled_from(["scripted", "scripted", "bytesio", "chunked-socket", "nonseekable", "socket"]))
    extra = {}
    if kind == "nonseekable":
        extra = {"chunk": draw(st.sampled_from([1, 2, 16, 64, 8192]))}
        if draw(st.booleans()) and items:
            # the stream ends inside the last item (after 1, 2, 3 ... bytes of a frame)
            last = bytes.fromhex(items[-1]["b"])
            items = items[:-1] + [{"k": "decoy", "b": last[: draw(st.integers(1, max(1, len(last) - 1)))].hex(), "decoy": "truncated"}]
    if kind in ("socket", "chunked-socket") and draw(st.integers(0, 2)) == 0:
        # a caster's response header ahead of the data (complete, malformed, or cut off)
        items = [draw(streams.response_headers())] + ([] if draw(st.integers(0, 5)) == 0 else items)
    if kind == "socket":
        n = sum(len(i["b"]) // 2 for i in items)
        extra = {"cuts": draw(streams.partitions(max(2, n))), "end": draw(st.sampled_from(["close", "close", "dead"]))}
    if kind == "chunked-socket":
        n = sum(len(i["b"]) // 2 for i in items)
        raw = draw(st.one_of(st.none(), st.none(), st.sampled_from([b"ked\r\n\r\n", b"Transfer-Encoding: chunked\r\n\r\n", b"zz\r\n", b"1g\r\n", b"ffffffffffffffffffff\r\nabc\r\n", b"7fffffffffffffff\r\n", b"-ffffffffffffffffffff\r\nabc\r\n", b"-8000000000000000000\r\n", b"-1\r\n", b"-4\r\n", b"-5\r\n", b"-6\r\n", b"-7\r\n", b"-9\r\n", b"-a\r\n", b"-10\r\n", b"+3\r\nabc\r\n", b"0x10\r\n", b" 5 \r\nhello\r\n", b"5;ext=1\r\nhello\r\n"]), st.binary(min_size=1, max_size=30)))
        extra = {"rawchunked": raw.hex() if raw else None, "enc": draw(st.sampled_from(["none", "gzip", "compress", "deflate", "gzip+deflate", "gzip+compress", "compress+deflate", "gzip+compress+deflate"])), "chunk": draw(st.sampled_from([7, 64, 500, 5000])), "cuts": draw(streams.partitions(max(2, 2 * n)))}
        extra["end"] = draw(st.sampled_from(["close", "close", "dead"]))
        if extra["enc"] != "none" and draw(st.integers(0, 2)) == 0:
            extra["badchunk"] = [draw(st.sampled_from(["cut", "cut", "flip"])), draw(st.integers(1, 12))]
    return {
        **extra,
        "items": items,
        "stream": kind,
        "script": draw(streams.read_scripts(48)) if kind == "scripted" else [],
        "qoe": draw(st.sampled_from([0, 1, 2])),
        "validate": draw(st.sampled_from([1, 1, 0])),
        "parsed": draw(st.sampled_from([True, True, False])),
        "handler": draw(st.sampled_from([False, True, 2])),  # 2: a handler that returns a truthy value
        "debug": draw(st.integers(0, 3)) == 0,
    }


def e_iter_long(tier, shard, nshards):
    """long runs of error-path items (every one of them is handled inside a single read() call in ignore / log mode)"""
    from pv import framing as fr

    n = 1500 if tier == "quick" else 12000
    good = {"k": "frame", "b": fr.build_frame(b"\xfe\x80\x01\x02").hex()}
    k = 0
    for kind in ("bad-header", "wrong-crc", "undecodable", "truncated-nmea", "filler"):
        for qoe in (0, 1, 2):
            k += 1
            if k % nshards != shard:
                continue
            items = [good]
            for j in range(n):
                if kind == "bad-header":
                    b = b"\xd3\xff"
                elif kind == "wrong-crc":
                    b = fr.build_frame(bytes([0xFE, 0x80, j & 0xFF, j >> 8]))[:-1] + b"\x00"
                    if fr.frame_problem(b) is None:
                        b = b[:-1] + b"\x01"
                elif kind == "undecodable":
                    b = fr.build_frame(bytes([0x3E, 0xD0, j & 0xFF]))  # 1005 with a 3-byte payload
                elif kind == "truncated-nmea":
                    b = b"$G" + bytes([65 + j % 20]) + b"\n"
                else:
                    b = fr.build_frame(b"")
                items.append({"k": "decoy", "b": b.hex()})
            items.append(good)
            yield {"items": items, "stream": "bytesio", "script": [], "qoe": qoe, "validate": 1, "parsed": True, "handler": bool(j & 1), "long": n}
    # the largest read requests the reader can make (UBX items with length field 0xFFFE / 0xFFFF: 65536 / 65537 bytes in
    # one read) over a socket that has all of it and more to give
    for ln in (0xFFFE, 0xFFFF):
        k += 1
        if k % nshards != shard:
            continue
        body = bytes((i * 11) & 0x7F | 1 for i in range(ln))  # no sync bytes, nothing that ends a line
        u = b"\xb5\x62\x01\x02" + ln.to_bytes(2, "little") + body + b"\x11\x22"
        items = [good, {"k": "ubx", "b": u.hex()}, good, {"k": "ubx", "b": u.hex()}, good]
        yield {"items": items, "stream": "chunked-socket", "script": [], "qoe": 0, "validate": 1, "parsed": True, "handler": False, "long": ln, "enc": "none", "chunk": 50000, "cuts": [], "rawchunked": None, "end": "close"}
        yield {"items": items, "stream": "socket", "script": [], "qoe": 0, "validate": 1, "parsed": True, "handler": False, "long": ln, "cuts": [], "end": "close"}


def _short(c):
    if c.get("long"):
        return {"long": c["long"], "qoe": c["qoe"], "items": f"{len(c['items'])} error-path items between two good frames"}
    c = dict(c)
    for k in ("payload", "buf"):
        if k in c and len(c[k]) > 120:
            c[k + "_len"] = len(c[k]) // 2
            c[k] = c[k][:120] + "..."
    if "items" in c:
        c["items"] = [{**i, "b": i["b"][:40] + ("..." if len(i["b"]) > 40 else "")} for i in c["items"]]
    return c


SUBS = [
    Sub("ctor_arbitrary", o_ctor, strategy=s_ctor, enum=e_ctor, examples=(300, 8000), rule="defined identity rejected, or length <= 3", need={"len0": 1, "len1": 1, "len2": 1, "defined": 1}, sample=_short),
    Sub("mutated_messages", o_mut, strategy=s_mut, examples=(300, 8000), rule="mutation changed the payload", need={"truncate": 1, "splice": 1, "err": 1}, sample=_short),
    Sub("vtec_arbitrary", o_vtec, strategy=s_vtec, examples=(100, 3000), rule="every case", sample=_short),
    Sub("static_parse", o_static, strategy=s_static, examples=(250, 6000), rule="every case", need={"buflen<=6": 1}, sample=_short),
    Sub("stream_iteration", o_iter, strategy=s_iter, enum=e_iter_long, examples=(200, 5000), rule="error-path item or read script present", need={"qoe0": 1, "qoe1": 1, "qoe2": 1, "long-run": 1, "socket-starts-with-a-response-header": 20}, sample=_short),
    __import__("pv.fuzz.campaign", fromlist=["make"]).make("C04", ("C04",)),
]
