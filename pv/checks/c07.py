"""C07 - serialize and parse are mutual inverses and framing is canonical."""

import io

from hypothesis import strategies as st

from pv import framing, gen
from pv.core import Fail, Res, Sub

PROPERTY = "C07"
RULE = (
    "payloads of every defined identity (model-built, optionally padded) and of unknown numbers, lengths 2..1023 with "
    "bias to 2/3/255/256/257/511/512/1022/1023: serialize() must equal the independent frame builder's output; "
    "parse(serialize(m)) must have equal payload, identity and public attributes; for every builder-made frame f: "
    "parse(f).serialize() == f and a reader over BytesIO(f) yields (f, message); eval(repr(m)).payload == payload. "
    "Non-trivial: length >= 256 or a defined identity."
)
ASSUMPTIONS = ["the frame builder and its CRC are the harness's own (pv/framing.py)"]


def pub(m):
    return [(k, v) for k, v in m.__dict__.items() if not k.startswith("_")]


def o_round(case):
    from pyrtcm import RTCMMessage, RTCMReader

    p = bytes.fromhex(case["payload"])
    lm = case.get("labelmsm", 1)
    m = RTCMMessage(payload=p, labelmsm=lm)
    want = framing.build_frame(p)
    ser = m.serialize()
    if ser != want:
        what = "length field" if ser[1:3] != want[1:3] else ("CRC" if ser[:-3] == want[:-3] else "body")
        raise Fail(f"serialize-not-canonical-{what}", f"len {len(p)}: serialize() = {ser[:4].hex()}..{ser[-3:].hex()} expected {want[:4].hex()}..{want[-3:].hex()}")
    m2 = RTCMReader.parse(ser, labelmsm=lm)
    if m2.payload != p or m2.identity != m.identity or pub(m2) != pub(m):
        raise Fail("parse-of-serialize-differs", f"len {len(p)} identity {m.identity}")
    if m.payload != p:
        raise Fail("payload-not-preserved", f"len {len(p)}")
    # converse: frame -> parse -> serialize
    m3 = RTCMReader.parse(want, labelmsm=lm)
    if m3.serialize() != want:
        raise Fail("serialize-of-parse-differs", f"len {len(p)}")
    got = list(RTCMReader(io.BytesIO(want), labelmsm=lm, quitonerror=2))
    if len(got) != 1 or got[0][0] != want or got[0][1] is None or got[0][1].payload != p or pub(got[0][1]) != pub(m):
        raise Fail("reader-roundtrip", f"reader over the canonical frame gave {len(got)} results / different content (len {len(p)})")
    # the same round trip with every option left at its default, after readers with other options have been built
    # and used above: what the static parser returns depends on its own arguments only
    md = RTCMMessage(payload=p)
    m5 = RTCMReader.parse(md.serialize())
    if m5.payload != p or m5.identity != md.identity or pub(m5) != pub(md):
        raise Fail("parse-of-serialize-differs-with-default-options", f"len {len(p)} identity {md.identity} (a reader with labelmsm={lm} was used before)")
    # a message parsed with validation off from a frame with a stale trailer must still serialise canonically
    stale = want[:-3] + bytes(b ^ 0x5A for b in want[-3:])
    m4 = RTCMReader.parse(stale, validate=0, labelmsm=lm)
    if m4.serialize() != want or m4.payload != p:
        raise Fail("serialize-after-validate0", f"len {len(p)}: message parsed with validate=0 from a wrong-trailer frame serialises to {bytes(m4.serialize())[-3:].hex()}, canonical CRC is {want[-3:].hex()}")
    # repr
    env = {"RTCMMessage": RTCMMessage}
    try:
        r = eval(repr(m), env)  # pylint: disable=eval-used
    except Exception as e:  # pylint: disable=broad-except
        raise Fail("repr-not-evaluable", f"{type(e).__name__}: {e}: {repr(m)[:80]}") from e
    if not isinstance(r, RTCMMessage) or r.payload != p:
        raise Fail("repr-roundtrip", f"eval(repr(m)).payload differs (len {len(p)})")
    n = len(p)
    cls = ["defined" if case.get("ident") else "unknown"]
    for edge in (2, 3, 255, 256, 257, 511, 512, 1022, 1023):
        if n == edge:
            cls.append(f"len{edge}")
    if n >= 256:
        cls.append("len>=256")
    if framing.frame_problem(p) is None:
        cls.append("payload-is-a-valid-frame")
    if case.get("register"):
        cls.append("crc-register-steered")
    if want[-2:] == b"\r\n":
        cls.append("crc-ends-in-crlf")
    if want[-3:] in (b"\0\0\0", b"\xff\xff\xff"):
        cls.append("crc-all-zero-or-ones")
    return Res(nontrivial=n >= 256 or bool(case.get("ident")), classes=cls, evals=5)


@st.composite
def s_round(draw, tier):
    k = draw(st.integers(0, 10))
    if k == 10:
        # the checksum register steered to a chosen value in the middle of the frame (all zero, one bit, top byte clear,
        # all ones ...): per-byte or per-word shortcuts in a CRC routine have their boundary cases there
        t = draw(st.sampled_from([0x010000, 0x010000, 0x000000, 0x00FFFF, 0x0000FF, 0xFF0000, 0xFFFFFF, 0x800000, 0x000001, 0x00FF00, 0x01FFFF]))
        p = framing.payload_hitting_register(draw(gen.unknown_payloads("small")), draw(st.binary(max_size=9)), t, draw(st.integers(0, 255)))
        return {"payload": p.hex(), "labelmsm": 1, "register": f"{t:06x}"}
    if k <= 4:
        c = draw(gen.any_message("mixed" if k < 2 else "small"))
        p = bytes.fromhex(c["payload"])
        room = 1023 - len(p)
        if room > 0 and draw(st.booleans()):
            # pad a defined message up to a boundary length
            target = draw(st.sampled_from(gen.LEN_EDGES + [len(p) + 1]))
            if target > len(p):
                p = p + draw(st.binary(min_size=target - len(p), max_size=target - len(p)))
        return {"payload": p.hex(), "ident": c["ident"], "labelmsm": draw(st.sampled_from([1, 2]))}
    if k == 6:
        from pv import streams

        it = draw(streams.trailer_frames())
        f = bytes.fromhex(it["b"])
        return {"payload": f[3:-3].hex(), "labelmsm": 1, "trailer": it["trailer"]}
    if k == 5:
        # a payload that is itself a valid frame / starts like one / contains sync-like content
        from pv import streams

        f = bytes.fromhex(draw(streams.syncy_frames())["b"])
        return {"payload": f[3:-3].hex(), "labelmsm": 1, "syncy": True}
    p = draw(gen.unknown_payloads("mixed"))
    return {"payload": p.hex(), "labelmsm": 1}


def _short(c):
    c = dict(c)
    if len(c.get("payload", "")) > 120:
        c["payload_len"] = len(c["payload"]) // 2
        c["payload"] = c["payload"][:120] + "..."
    return c


SUBS = [
    Sub("roundtrip", o_round, strategy=s_round, examples=(250, 5000), rule="length >= 256 or defined identity", need={"crc-register-steered": 1, "crc-ends-in-crlf": 1, "crc-all-zero-or-ones": 1, "payload-is-a-valid-frame": 1, "len255": 1, "len256": 1, "len1023": 1, "defined": 1, "unknown": 1}, sample=_short),
]
