"""C01 - the reader delivers only intact, exactly delimited RTCM3 frames."""

from hypothesis import strategies as st

from pv import framing, streams
from pv.core import Fail, Res, Sub
from pv.doubles import BudgetBytesIO, ScriptedStream

PROPERTY = "C01"
RULE = (
    "adversarial byte streams (valid frames of every type, bit-damaged, truncated, decoy frames with reserved bits set / "
    "lying length / wrong CRC, frames nested in UBX / NMEA / other frames, NMEA, UBX, sync-dense noise) x scripts of short and "
    "empty reads x error mode, validate=1; every delivered (raw, parsed) must be a well-formed frame by the independent validator, "
    "a contiguous in-order non-overlapping slice of bytes already handed out, with parsed.payload == raw[3:-3] and the identity's "
    "number == the 12 bits carried. Non-trivial: >= 1 frame delivered AND (>= 1 decoy/damaged/arbitrary item OR >= 1 scripted "
    "fault applied before the last delivery)."
)
ASSUMPTIONS = [
    "which frames are delivered is C02/C05's business; a CRC-valid slice the generator did not intend is accepted iff genuinely well formed",
    "empty reads injected mid-stream model timeouts: the driver keeps calling read() while bytes remain",
]


def drive(case, data, stream):
    """returns [(raw, parsed, stream position after delivery, faults applied so far)]"""
    from pyrtcm import RTCMReader

    rdr = RTCMReader(stream, validate=case.get("validate", 1), quitonerror=case["qoe"], parsed=True)
    out = []
    guard = 0
    limit = 2 * (len(data) + len(case["script"])) + 64
    raised = 0
    while True:
        guard += 1
        if guard > limit:
            raise Fail("non-termination", f"driver called read() {guard} times for {len(data)} bytes")
        try:
            raw, parsed = rdr.read()
        except Fail:
            raise
        except Exception:  # pylint: disable=broad-except
            # error mode 'raise' (exception types are C04's business); the reader must remain usable
            raised += 1
            continue
        if raw is None and parsed is None:
            if stream.exhausted:
                break
            continue
        out.append((raw, parsed, stream.pos, stream.faults))
    _second_pass(rdr, out, len(data))
    return out, raised


def _second_pass(rdr, out, end):
    """the stream is at its end: iterate the same reader again (a second for-loop, a poll). Whatever that still
    delivers (a socket wrapper may hold bytes back behind a false frame) is judged like every other delivery - in
    particular it must not be an earlier slice once more"""
    import itertools

    for _ in range(2):  # the first for-loop runs the iterator dry, the second starts on an exhausted reader
        try:
            again = list(itertools.islice(iter(rdr), len(out) + 8))
        except Fail:
            raise
        except Exception:  # pylint: disable=broad-except
            again = []  # exception types are C04's business
        for raw, parsed in again:
            out.append((raw, parsed, end, out[-1][3] if out else 0))


class _FileView(BudgetBytesIO):
    """an ordinary seekable in-memory file with the (pos, faults, exhausted) view the driver needs"""

    faults = 0
    log = ()
    prelen = 0  # bytes the application consumed before it handed the file to the reader

    @property
    def pos(self):
        return self.tell() - self.prelen

    @property
    def exhausted(self):
        return self.tell() >= len(self.getvalue())


class _SockView:
    """adapter giving a ScriptedSocket the (pos, faults, exhausted) view the driver needs: position = bytes handed out"""

    def __init__(self, sock):
        self.sock = sock

    @property
    def pos(self):
        return len(self.sock.handed)

    @property
    def faults(self):
        return sum(1 for _, o in self.sock.log if o in ("timeout", "oserror"))

    @property
    def exhausted(self):
        return self.sock.closed_by_peer or (not self.sock.events)


def drive_socket(case, data):
    """the same stream through a socket: generated segmentation with timeouts / OS errors between segments; the
    application keeps polling after (None, None) until the peer has closed"""
    from pyrtcm import RTCMReader

    from pv.doubles import ScriptedSocket

    wire = data
    kw = {}
    if case.get("enc"):
        # the same bytes as an HTTP chunked body, each chunk optionally compressed (C12 decides whether de-chunking is
        # right; here: whatever the transfer coding, only intact frames of the *decoded* stream are delivered)
        from pv.checks import c12

        step = max(1, case.get("chunk", 64), len(data) // 1500 + 1)  # at most ~1500 chunks (huge UBX items exist)
        wire, _ = c12.encode({"chunks": [data[i : i + step].hex() for i in range(0, len(data), step)], "enc": case["enc"], "hexcase": [0, 1], "terminator": bool(case.get("term", 1))})
        kw = {"encoding": c12.ENC[case["enc"]]}
    segs = streams.split(wire, [c for c in case["cuts"] if 0 < c < len(wire)])
    events = []
    for k, sg in enumerate(segs):
        events.append(sg)
        f = case["faults"][k % len(case["faults"])] if case["faults"] else 0
        if f == 1:
            events.append("timeout")
        elif f == 2:
            events.append("oserror")
        elif f == 3:
            events.append("oserror:connreset")
    events.append(case.get("end", "close"))  # "close": the peer closes; "dead": every further recv() fails with a reset
    sock = ScriptedSocket(events)
    sock.budget = 6 * len(wire) + 8 * len(events) + 256
    view = _SockView(sock)
    view.decoded = bool(kw)
    out = []
    raised = 0
    try:
        if case.get("prewrap"):
            # the application wraps the socket itself (SocketWrapper is public) and hands the wrapper to the reader
            from pyrtcm.socketwrapper import SocketWrapper

            rdr = RTCMReader(SocketWrapper(sock, bufsize=case["bufsize"], **kw), validate=case.get("validate", 1), quitonerror=case["qoe"], parsed=True)
        else:
            rdr = RTCMReader(sock, validate=case.get("validate", 1), quitonerror=case["qoe"], parsed=True, bufsize=case["bufsize"], **kw)
        guard = 0
        limit = 4 * len(wire) + 4 * len(data) + 4 * len(events) + 256
        while True:
            guard += 1
            if guard > limit:
                raise Fail("non-termination", f"driver called read() {guard} times for {len(data)} bytes over a socket")
            try:
                raw, parsed = rdr.read()
            except Fail:
                raise
            except Exception:  # pylint: disable=broad-except
                raised += 1
                continue
            if raw is None and parsed is None:
                if sock.closed_by_peer:
                    break
                continue
            out.append((raw, parsed, len(data) if kw else view.pos, view.faults))
        _second_pass(rdr, out, len(data) if kw else view.pos)
    finally:
        sock.close()
    return out, raised, view


def o_stream(case):
    items = case["items"]
    data = streams.join(items)
    if case.get("stream") == "socket":
        out, raised, stream = drive_socket(case, data)
        stream.log = []
    elif case.get("stream") == "file":
        pre = bytes.fromhex(case.get("pre") or "")
        stream = _FileView(pre + data)
        stream.prelen = len(pre)
        stream.seek(len(pre))
        out, raised = drive(case, data, stream)
    else:
        stream = ScriptedStream(data, case["script"], slack=32)
        out, raised = drive(case, data, stream)
    prev_end = 0
    for n, (raw, parsed, pos, _) in enumerate(out):
        if not isinstance(raw, (bytes, bytearray)):
            raise Fail("raw-not-bytes", f"delivery {n}: {type(raw).__name__}")
        raw = bytes(raw)
        prob = framing.frame_problem(raw)
        if prob is not None:
            raise Fail("malformed-frame-delivered", f"delivery {n}: {prob}: {raw.hex()[:60]}.. (len {len(raw)})")
        s = data.find(raw, prev_end)
        if s < 0 or s + len(raw) > pos:
            where = "not found after the previous slice" if s < 0 else f"slice ends at {s + len(raw)} but only {pos} bytes had been read"
            raise Fail("not-a-contiguous-ordered-slice", f"delivery {n} ({raw.hex()[:40]}.. len {len(raw)}): {where}")
        prev_end = s + len(raw)
        if parsed is None:
            raise Fail("parsed-missing", f"delivery {n}: parsed object is None with parsed=True")
        if parsed.payload != raw[3:-3]:
            raise Fail("payload-mismatch", f"delivery {n}: parsed.payload {bytes(parsed.payload).hex()[:40]} != raw[3:-3] {raw[3:-3].hex()[:40]}")
        num = framing.msgnum(raw[3:-3])
        ident = str(parsed.identity)
        if num is None or ident.split("_")[0] != str(num):
            raise Fail("message-number-mismatch", f"delivery {n}: identity {ident!r} but the slice carries number {num}")
        if ident != framing.ref_identity(raw[3:-3]):
            raise Fail("message-number-mismatch", f"delivery {n}: identity {ident!r}, slice carries {framing.ref_identity(raw[3:-3])!r}")
        df2 = getattr(parsed, "DF002", None)
        if isinstance(df2, int) and df2 != num:
            raise Fail("message-number-mismatch", f"delivery {n}: DF002 {df2} but the slice carries number {num}")
    kinds = [i["k"] for i in items]
    cls = [f"qoe{case['qoe']}", "stream-" + case.get("stream", "scripted")]
    if case.get("enc"):
        cls.append("chunked-socket-" + case["enc"])
    if case.get("end") == "dead":
        cls.append("socket-dies")
    if case.get("prewrap"):
        cls.append("socket-wrapped-by-caller")
    if case.get("stream") == "socket" and stream.faults:
        cls.append("socket-timeout-or-error-mid-stream")
    hostile = any(k in ("damaged", "decoy") or i.get("arbitrary") or i.get("syncy") for k, i in zip(kinds, items))
    for i in items:
        if i.get("decoy"):
            cls.append("decoy:" + i["decoy"])
    if "damaged" in kinds:
        cls.append("damaged")
    faults_before_last = out[-1][3] if out else 0
    if stream.faults and case.get("stream") not in ("socket", "file"):
        cls.append("fault-applied")
        # was a fault applied inside a valid frame?
        off = 0
        spans = []
        for i in items:
            ln = len(i["b"]) // 2
            if i["k"] == "frame":
                spans.append((off, off + ln))
            off += ln
        for kind, o, req, ret in stream.log:
            if (req < 0 or ret < req) and any(a <= o + ret < b and o + ret > a for a, b in spans):
                cls.append("fault-inside-valid-frame")
                if ret == 0:
                    cls.append("empty-read-inside-valid-frame")
                break
    if raised:
        cls.append("read-raised")
    if out:
        cls.append("delivered")
    nt = bool(out) and (hostile or faults_before_last > 0)
    return Res(nontrivial=nt, classes=sorted(set(cls)))


@st.composite
def s_stream(draw, tier):
    case = draw(_s_stream(tier))
    # "validation on" is a bit flag (VALCKSUM = 1, tested with &): any word with bit 0 set
    case["validate"] = draw(st.sampled_from([1, 1, 1, 1, True, 3, 5, 0xFF]))
    return case


@st.composite
def _s_stream(draw, tier):
    items = streams.flatten(draw(st.lists(streams.adversarial_items("small"), min_size=1, max_size=12)))
    if draw(st.integers(0, 7)) == 0:
        pre = ""
        if draw(st.booleans()):
            # the application read a file header (here: items like those that follow) before handing the file over
            pre = (streams.join(streams.flatten(draw(st.lists(streams.adversarial_items("small"), min_size=1, max_size=4)))) + bytes(draw(st.integers(0, 40))))[:600].hex()
        return {"items": items, "script": [], "qoe": draw(st.sampled_from([0, 1, 2])), "stream": "file", "pre": pre}
    if draw(st.integers(0, 3)) == 0:
        bufsize = draw(st.sampled_from([1, 3, 64, 512, 4096]))
        if draw(st.integers(0, 3)) == 0:
            items = draw(streams.align_to(items, bufsize))
        textcuts = None
        if draw(st.integers(0, 3)) == 0:
            # a line of text inside a frame (or at the start of a valid frame's payload), with receive boundaries
            # exactly around it: where a segment starts says nothing about what its bytes are
            t = draw(st.one_of(streams.text_in_frame(), streams.text_payload_frames()))
            k = draw(st.integers(0, len(items)))
            items = items[:k] + [t] + items[k:]
            textcuts = streams.structure_cuts(items)
        n = sum(len(i["b"]) // 2 for i in items)
        extra = {}
        if textcuts is None and draw(st.integers(0, 2)) == 0:
            extra = {"enc": draw(st.sampled_from(["none", "gzip", "compress", "deflate"])), "chunk": draw(st.sampled_from([1, 7, 19, 64, 300, 5000])), "term": draw(st.integers(0, 1))}
            n = 3 * n + 64  # cut positions over the encoded stream
        return {
            **extra,
            "items": items,
            "script": [],
            "qoe": draw(st.sampled_from([0, 1, 2])),
            "stream": "socket",
            "cuts": textcuts if textcuts is not None else draw(st.sampled_from([streams.boundaries(items), streams.structure_cuts(items), streams.structure_cuts(items)])) if not extra and draw(st.integers(0, 1)) == 0 else (streams.modulus_cuts(n, bufsize) if bufsize > 1 and draw(st.integers(0, 4)) == 0 else draw(streams.partitions(n))),
            "end": draw(st.sampled_from(["close", "close", "dead"])),
            "prewrap": draw(st.integers(0, 3)) == 0,
            "faults": draw(st.lists(st.sampled_from([0, 0, 1, 1, 2, 3]), min_size=0, max_size=8)),
            "bufsize": bufsize,
        }
    script = draw(st.one_of(st.just([]), streams.read_scripts(64)))
    if draw(st.integers(0, 7)) == 0:
        # a frame whose 3 header bytes are followed by junk and only then by its payload and CRC, with an empty read
        # right after the header and a short read (exactly the junk) on the resumed request: a reader that keeps a
        # partial frame across calls must not glue the stale header to what follows
        g = bytes.fromhex(draw(streams.frames("small"))["b"])
        junk = draw(st.lists(st.sampled_from([1, 2, 7, 9, 0x55, 0xAA]), min_size=1, max_size=min(8, max(1, len(g) - 7))).map(bytes))
        items = [streams.item("decoy", g[:3] + junk + g[3:], decoy="header-junk-rest")] + items
        script = [None, None, None, 0, len(junk)] + script
    elif draw(st.integers(0, 7)) == 0:
        # a frame whose length field says k bytes less than it carries, with a checksum that is right for what it
        # carries, and the payload request answered in pieces (first a bytes, then exactly k): a reader that tops up
        # short reads must not end up with more than it asked for and deliver the over-long body
        g = bytes.fromhex(draw(streams.frames("small"))["b"])
        n = len(g) - 6
        if n >= 4:
            k = draw(st.integers(1, min(3, n - 3)))
            a = draw(st.integers(1, n - k - 1))
            body = bytearray(g[:-3])
            body[1], body[2] = (n - k) >> 8, (n - k) & 0xFF
            items = [streams.item("decoy", bytes(body) + framing.crc_table(bytes(body)).to_bytes(3, "big"), decoy="lying-length-topped-up")] + items
            script = [None, None, None, a, k] + script
    return {"items": items, "script": script, "qoe": draw(st.sampled_from([0, 1, 2]))}


def _sample(c):
    return {k: (v if k != "items" else [{**i, "b": i["b"][:40] + ("..." if len(i["b"]) > 40 else "")} for i in v]) for k, v in c.items()}


SUBS = [
    Sub(
        "adversarial_streams",
        o_stream,
        strategy=s_stream,
        examples=(300, 6000),
        rule="see property rule",
        need={"stream-file": 1, "decoy:zero-length-over-data": 1, "socket-dies": 1, "socket-wrapped-by-caller": 1, "chunked-socket-gzip": 1, "chunked-socket-none": 1, "fault-inside-valid-frame": 1, "empty-read-inside-valid-frame": 1, "damaged": 1, "decoy:reserved-bits": 1, "decoy:lying-length": 1, "decoy:nested-ubx": 1, "decoy:jumbo-frame": 1, "decoy:split-behind-false-syncs": 1, "decoy:header-junk-rest": 1, "decoy:lying-length-topped-up": 1, "decoy:text-inside-frame": 20, "decoy:ubx-extent-splits-frame": 20, "delivered": 10, "socket-timeout-or-error-mid-stream": 1},
        sample=_sample,
    ),
    __import__("pv.fuzz.campaign", fromlist=["make"]).make("C01", ("C01",)),
]
