"""C10 - message layouts conform to the published standards and to each other."""

from hypothesis import strategies as st

from pv import framing, gen, model, pins
from pv.core import Fail, Res, Sub, digest

PROPERTY = "C10"
RULE = (
    "(a) structure, complete pass over all identities of the three tables and of the pinned roster: definition walkable (dict bodies, "
    "2-tuples, defined field keys, counters/conditions decoded earlier on every path), routed by the parser, a message with every "
    "counter >= 1 parses; (b) lengths: for generated repeat counts the bits the parser consumes equal the pinned standard formula, "
    "measured black-box: ceil(L/8) bytes accepted, one byte fewer rejected, flipping bit L-1 changes an attribute, setting every bit "
    ">= L (padding + an extra byte) changes nothing; (c) siblings, metamorphic on generated block bits: combined orbit+clock block == "
    "orbit block ++ clock block without the repeated satellite ID (1060, 1066, 4076_x23 for six constellations), extended observables "
    "contain the basic ones (1002/1004/1010/1012), all seven constellations share one MSM layout per level, all IGS constellations "
    "share one layout per sub-type; compared positionally and by attribute names. Non-trivial: (b) counts not all zero, (c) block bits "
    "not all zero."
)
ASSUMPTIONS = [
    "length formulas and field-width lists are the harness's transcription of RTCM 10403.3 / IGS SSR v1 (cross-checked with RTKLIB and recorded frames)",
    "every data type's least significant bit influences its decoded value (used by the bit-exact length probe)",
]


def pub(m):
    return [(k, v) for k, v in m.__dict__.items() if not k.startswith("_")]


def parse(p, lm=1):
    from pyrtcm import RTCMMessage

    return RTCMMessage(payload=p, labelmsm=lm)


# ------------------------------------------------------------------ (a) structure
def o_struct(case):
    ident = case["ident"]
    d = model.definition(ident)
    if d is None:
        raise Fail("roster-identity-undefined", f"{ident} is defined by the standards (pinned roster) but has no payload definition in its table")
    mid, sub = model.ident_numbers(ident)

    def src(ones):
        def s(key, width, w, idx):
            if key == "DF002" and w.nbits == 0:
                return mid
            if key == "IDF002":
                return sub
            if key == "DF394":
                return (0b101 << 61) if ones else 0
            if key == "DF395":
                return (0b11 << 30) if ones else 0
            if key == "DF396":
                return (1 << width) - 1 if ones else 0
            if width == 0:
                return 0
            if w.per_iter > 0 or key in ("IDF035",):
                return 1 if ones else 0
            if key in ("DF422_1", "DF422_2", "DF422_3", "DF422_4"):
                return 1 if ones else 0
            return (1 if ones else 0) if key not in ("IDF037", "IDF038") else 0

        return s

    evals = 0
    for ones in (False, True):
        w = model.Walk(ident, src(ones)).run()  # BadDefinition -> verdict 'definition-malformed'
        p = w.payload(0)
        try:
            m = parse(p)
        except Exception as e:  # pylint: disable=broad-except
            raise Fail("defined-identity-not-decodable", f"{ident} (counters {'>=1' if ones else '0'}): {type(e).__name__}: {e}") from e
        if m.identity != ident:
            raise Fail("routing", f"{ident}: parsed identity {m.identity!r}")
        got = [k for k, _ in pub(m)]
        want = [k for k, _ in w.expected()]
        if sorted(got) != sorted(want):
            raise Fail("routing", f"{ident}: the parser is not using this definition (attributes {got[:8]}.. expected {want[:8]}..)")
        evals += 1
    F = model.tables()["F"]
    for it in w.items:
        t = F[it.key]
        if not (isinstance(t, tuple) and len(t) == 4 and isinstance(t[1], int) and isinstance(t[3], str)):
            raise Fail("data-field-entry-malformed", f"RTCM_DATA_FIELDS[{it.key!r}] = {t!r}")
    # a repeat count is a count: the field it refers to is an unsigned integer of non-zero width with resolution 1
    for k in sorted(w.counters):
        if k in F and not (F[k][0] == "UINT" and F[k][1] > 0 and F[k][2] in (0, 1)):
            raise Fail("repeat-count-field-not-an-unsigned-count", f"{ident}: groups repeat on {k}, declared as {F[k][:3]!r}")
    return Res(nontrivial=True, classes=["has-groups" if w.stats["groups"] else "flat"], evals=evals)


def e_struct(tier, shard, nshards):
    ids = list(dict.fromkeys(model.identities() + pins.roster()))
    for i in ids[shard::nshards]:
        yield {"ident": i}


# ------------------------------------------------------------------ (b) lengths
def o_len(case):
    ident = case["ident"]
    p = bytes.fromhex(case["payload"])
    _, w = model.decode(p)
    L = pins.LENGTH[ident](w.vals)
    nbytes = (L + 7) // 8
    if nbytes > 1023:
        return Res(False, ["formula-exceeds-frame"])
    # lay the generated fields out and give the parser exactly ceil(L/8) bytes (zero padded / cut as the pin says)
    v, n = w.bits()
    tb = max(nbytes, (n + 7) // 8) + 2
    full = (v << (tb * 8 - n)).to_bytes(tb, "big")  # the fields, then zero bits
    exact = full[:nbytes]
    try:
        m = parse(exact)
    except Exception as e:  # pylint: disable=broad-except
        raise Fail("standard-length-rejected", f"{ident}: the standard gives {L} bits = {nbytes} bytes for these counts, the parser rejects that many ({type(e).__name__}); definition lays out {n} bits") from e
    base = pub(m)
    hdr = 3 if ident.startswith("4076") else 2
    if nbytes - 1 >= hdr:
        try:
            parse(exact[:-1])
            short_ok = True
        except Exception:  # pylint: disable=broad-except
            short_ok = False
        if short_ok:
            raise Fail("shorter-than-standard-accepted", f"{ident}: the standard gives {L} bits = {nbytes} bytes for these counts, the parser also accepts {nbytes - 1}; definition lays out {n} bits")
    # bit L-1 must be consumed
    total = len(exact) * 8
    flipped = bytearray(exact)
    flipped[(L - 1) >> 3] ^= 0x80 >> ((L - 1) & 7)
    try:
        changed = pub(parse(bytes(flipped))) != base
    except Exception:  # pylint: disable=broad-except
        changed = True
    if not changed:
        raise Fail("last-standard-bit-ignored", f"{ident}: bit {L - 1} (last bit of the standard length {L}) does not influence any attribute; definition lays out {n} bits")
    # bits >= L must not be consumed
    ext = bytearray(exact + b"\xff")
    for b in range(L, total):
        ext[b >> 3] |= 0x80 >> (b & 7)
    try:
        same = pub(parse(bytes(ext))) == base
    except Exception:  # pylint: disable=broad-except
        same = False
    if not same:
        raise Fail("bits-beyond-standard-length-consumed", f"{ident}: bits after the standard length {L} influence the result; definition lays out {n} bits")
    nz = w.stats["iters"] > 0 or w.stats["optional"] > 0
    return Res(nontrivial=nz, classes=["counts>0" if nz else "counts=0"], evals=4)


def plan_len(tier, shard, nshards):
    ids = gen.all_idents_safe()[shard::nshards]
    n = 20 if tier == "quick" else 200
    return [(i, st.one_of(gen.messages(i, "small"), gen.messages(i, "mixed")), n) for i in ids if i in pins.LENGTH]


# ------------------------------------------------------------------ (c) siblings
def header_and_group(ident, count=1):
    """payload bits of the header with the group counter = count and everything else zero; returns (bits, nbits)"""
    mid, sub = model.ident_numbers(ident)
    state = {"hdr": None}

    def s(key, width, w, idx):
        if idx and state["hdr"] is None:
            state["hdr"] = w.nbits
        if key == "DF002" and w.nbits == 0:
            return mid
        if key == "IDF002":
            return sub
        if not idx and w.per_iter > 0:
            return count
        return 0

    w = model.Walk(ident, s).run()
    hdr = state["hdr"] if state["hdr"] is not None else w.nbits
    v, n = w.bits()
    return v >> (n - hdr), hdr


def with_block(ident, block, nbits):
    hv, hn = header_and_group(ident, 1)
    v = (hv << nbits) | block
    n = hn + nbits
    pad = (-n) % 8
    return (v << pad).to_bytes((n + pad) // 8, "big")


def grouped(m):
    """[(base name, value)] of the attributes of group iteration 1"""
    return [(k[:-3], v) for k, v in pub(m) if k.endswith("_01")]


def o_ssr(case):
    comb, orb, clk, idbits, nid, nob, ncb = pins.SSR_TRIPLES[case["triple"]]
    nb = nob + ncb - idbits
    B = case["block"] & ((1 << nb) - 1)
    orbit_bits = B >> (nb - nob)
    clock_rest = B & ((1 << (ncb - idbits)) - 1)
    satid = B >> (nb - idbits)
    clock_bits = (satid << (ncb - idbits)) | clock_rest
    gc = grouped(parse(with_block(comb, B, nb)))
    go = grouped(parse(with_block(orb, orbit_bits, nob)))
    gk = grouped(parse(with_block(clk, clock_bits, ncb)))
    want = go + gk[nid:]
    if gk[:nid] != go[:nid]:
        raise Fail("composite-shared-prefix", f"{orb}/{clk}: the shared leading fields decode differently: {go[:nid]} vs {gk[:nid]}")
    if [v for _, v in gc] != [v for _, v in want]:
        pos = next(i for i, (a, b) in enumerate(zip(gc, want)) if a[1] != b[1]) if len(gc) == len(want) else -1
        raise Fail("composite-block-values", f"{comb} block != {orb} block ++ {clk} block: position {pos}: {gc[pos] if pos >= 0 else len(gc)} vs {want[pos] if pos >= 0 else len(want)}; block {B:#x}")
    if [k for k, _ in gc] != [k for k, _ in want]:
        raise Fail("composite-block-names", f"{comb} names {[k for k, _ in gc]} != {orb}++{clk} names {[k for k, _ in want]}")
    return Res(nontrivial=B != 0, classes=[comb[:4]], evals=3)


def o_parallel(case):
    group = pins.PARALLEL[case["group"] % len(pins.PARALLEL)]
    ref = None
    for ident, idbits, nb in group:
        rest = nb - idbits
        B = case["block"] & ((1 << rest) - 1)
        sat = case["sat"] & ((1 << idbits) - 1)
        g = grouped(parse(with_block(ident, (sat << rest) | B, nb)))
        vals = [v for _, v in g[1:]]
        if g[0][1] != sat:
            raise Fail("parallel-satellite-id", f"{ident}: satellite ID decodes to {g[0][1]}, bits hold {sat}")
        if ref is None:
            ref = (ident, vals)
        elif vals != ref[1]:
            d = next((i for i, (a, b) in enumerate(zip(vals, ref[1])) if a != b), None)
            raise Fail("parallel-block-values", f"{ident} decodes the same block bits differently from {ref[0]}: field {d + 1 if d is not None else '?'}: {g[d + 1] if d is not None else len(vals)} vs {ref[1][d] if d is not None else len(ref[1])}; block {B:#x}")
    return Res(nontrivial=case["block"] != 0, classes=[group[0][0]], evals=len(group))


def s_parallel(tier):
    return st.builds(
        lambda g, b, sat: {"group": g, "block": b, "sat": sat},
        st.integers(0, len(pins.PARALLEL) - 1),
        st.one_of(st.integers(0, 2**200 - 1), st.sampled_from([0, 2**200 - 1]), st.integers(0, 199).map(lambda k: 1 << k)),
        st.integers(0, 63),
    )


def s_ssr(tier):
    return st.builds(lambda t, b: {"triple": t, "block": b}, st.integers(0, len(pins.SSR_TRIPLES) - 1), st.one_of(st.integers(0, 2**205 - 1), st.sampled_from([0, 2**205 - 1]), st.integers(0, 204).map(lambda k: 1 << k)))


def o_ext(case):
    (ext, basic), widths = list(pins.EXTENDED.items())[case["pair"]]
    nb = sum(abs(x) for x in widths)
    B = case["block"] & ((1 << nb) - 1)
    # delete the extension fields' bits
    pos = nb
    kept = 0
    kn = 0
    keep_idx = []
    for i, wd in enumerate(widths):
        pos -= abs(wd)
        if wd > 0:
            kept = (kept << wd) | ((B >> pos) & ((1 << wd) - 1))
            kn += wd
            keep_idx.append(i)
    ge = grouped(parse(with_block(ext, B, nb)))
    gb = grouped(parse(with_block(basic, kept, kn)))
    if len(ge) != len(widths):
        raise Fail("extended-field-count", f"{ext}: {len(ge)} fields per satellite, the standard has {len(widths)}")
    sel = [ge[i] for i in keep_idx]
    if [v for _, v in sel] != [v for _, v in gb]:
        raise Fail("extended-contains-basic-values", f"{ext} without its extension fields != {basic}: {sel} vs {gb}")
    if [k for k, _ in sel] != [k for k, _ in gb]:
        raise Fail("extended-contains-basic-names", f"{ext} shared fields {[k for k, _ in sel]} vs {basic} {[k for k, _ in gb]}")
    return Res(nontrivial=B != 0, classes=[ext], evals=2)


def s_ext(tier):
    return st.builds(lambda t, b: {"pair": t, "block": b}, st.integers(0, len(pins.EXTENDED) - 1), st.one_of(st.integers(0, 2**130 - 1), st.sampled_from([0, 2**130 - 1]), st.integers(0, 129).map(lambda k: 1 << k)))


def renumber(p, ident):
    n, sub = model.ident_numbers(ident)
    q = bytearray(p)
    q[0] = n >> 4
    q[1] = (n & 0xF) << 4 | (q[1] & 0xF)
    if sub is not None:
        q[1] = (q[1] & 0xFE) | (sub >> 7)
        q[2] = ((sub & 0x7F) << 1) | (q[2] & 1)
    return bytes(q)


def o_msm_family(case):
    """identical body bits under the seven constellations of one MSM level"""
    p = bytes.fromhex(case["payload"])
    lvl = int(case["ident"][3])
    ref = None
    for c in range(7):
        ident = str(1070 + 10 * c + lvl)
        m = parse(renumber(p, ident))
        a = pub(m)
        k0 = next((i for i, (k, _) in enumerate(a) if k == "DF393"), None)
        if k0 is None:
            raise Fail("msm-family-header", f"{ident}: no DF393 attribute")
        body = []
        for k, v in a[k0:]:
            base = k.split("_")[0]
            if base in ("PRN", "CELLPRN", "CELLSIG"):
                body.append((base, None))
            elif base in ("ExtSatInfo", "DF419"):
                # the 4 bits of extended satellite information are the GLONASS frequency channel number (DF419) in the
                # GLONASS messages and carry no DF number elsewhere (RTCM 10403.3, MSM5 / MSM7 satellite data)
                if (base == "DF419") != ident.startswith("108"):
                    raise Fail("msm-family-extended-info-field", f"{ident}: extended satellite information decoded as {base}")
                body.append(("EXT", v))
            else:
                body.append((k, v))
        epoch = a[:k0]
        # 30 epoch bits: one 30-bit field, or GLONASS day-of-week (3) + tk (27)
        ev = [v for _, v in epoch[2:]]
        if len(ev) == 1:
            e30 = ev[0]
        elif len(ev) == 2 and ident.startswith("108"):
            e30 = (ev[0] << 27) | ev[1]
        else:
            raise Fail("msm-family-epoch", f"{ident}: epoch fields {epoch[2:]}")
        want_epoch = pins.EPOCH_FIELD[pins.msm_cons(ident)]
        if epoch[-1][0] != want_epoch:
            raise Fail("msm-family-epoch-field", f"{ident}: epoch attribute {epoch[-1][0]}, standard {want_epoch}")
        cur = (e30, body)
        if ref is None:
            ref = cur
        elif cur != ref:
            if cur[0] != ref[0]:
                raise Fail("msm-family-epoch", f"{ident}: the 30 epoch bits decode to {cur[0]}, under 107{lvl} to {ref[0]}")
            d = next((i for i, (x, y) in enumerate(zip(cur[1], ref[1])) if x != y), None)
            raise Fail("msm-family-layout", f"MSM{lvl}: {ident} decodes the same body bits differently from 107{lvl}: {cur[1][d] if d is not None else len(cur[1])} vs {ref[1][d] if d is not None else len(ref[1])}")
    _, w = model.decode(p)
    return Res(nontrivial=w.vals["NCell"] > 0, classes=[f"msm{lvl}"], evals=7)


def plan_msm_family(tier, shard, nshards):
    n = 40 if tier == "quick" else 600
    return [(str(lvl), gen.messages(f"107{lvl}", "small"), n) for lvl in range(1, 8)][shard::nshards]


def o_igs_family(case):
    """identical bits under the six IGS constellations of one sub-type"""
    p = bytes.fromhex(case["payload"])
    k = int(case["ident"][5:]) % 20
    ref = None
    for base in (20, 40, 60, 80, 100, 120):
        ident = f"4076_{base + k:03d}"
        a = [(n, v) for n, v in pub(parse(renumber(p, ident))) if n != "IDF002"]
        if ref is None:
            ref = a
        elif a != ref:
            d = next((i for i, (x, y) in enumerate(zip(a, ref)) if x != y), None)
            raise Fail("igs-family-layout", f"{ident} decodes the same bits differently from 4076_{20 + k:03d}: {a[d] if d is not None else len(a)} vs {ref[d] if d is not None else len(ref)}")
    return Res(nontrivial=len(ref) > 12, classes=[f"igm0{k}"], evals=6)


def plan_igs_family(tier, shard, nshards):
    n = 30 if tier == "quick" else 400
    return [(str(k), gen.messages(f"4076_{20 + k:03d}", "small"), n) for k in range(1, 8)][shard::nshards]


def _short(c):
    c = dict(c)
    if len(c.get("payload", "")) > 160:
        c["payload_len"] = len(c["payload"]) // 2
        c["payload"] = c["payload"][:160] + "..."
    if "block" in c:
        c["block"] = hex(c["block"])
    return c


SUBS = [
    Sub("structure", o_struct, enum=e_struct, exhaustive=True, rule="every identity of the tables and of the pinned roster (complete)", need={"has-groups": 1}),
    Sub("standard_lengths", o_len, plan=plan_len, rule="repeat counts not all zero; distinct by (identity, payload)", need={"counts>0": 1}, sample=_short),
    Sub("ssr_combined_equals_orbit_plus_clock", o_ssr, strategy=s_ssr, examples=(200, 3000), rule="block bits not all zero", sample=_short),
    Sub("parallel_messages_share_layout", o_parallel, strategy=s_parallel, examples=(200, 3000), rule="block bits not all zero", sample=_short),
    Sub("extended_contains_basic", o_ext, strategy=s_ext, examples=(150, 2000), rule="block bits not all zero", sample=_short),
    Sub("msm_one_layout_per_level", o_msm_family, plan=plan_msm_family, shards=(7, 7), rule="NCell > 0", sample=_short),
    Sub("igs_one_layout_per_subtype", o_igs_family, plan=plan_igs_family, shards=(7, 7), rule="more than 12 attributes", sample=_short),
]
