"""C12 - chunked transfer decoding is independent of segmentation."""

import zlib

from hypothesis import strategies as st

from pv import core, streams
from pv.core import Fail, Res, Sub, digest
from pv.doubles import ScriptedSocket

PROPERTY = "C12"
RULE = (
    "well-formed HTTP/1.1 chunked bodies (0-6 chunks, sizes crossing hex digit counts, lower / upper / mixed-case hex, with or "
    "without the terminating zero chunk, data biased to CR / LF / hex digits / CRLF), alone or with per-chunk gzip / zlib / raw-deflate "
    "compression, delivered through every partition into recv() results: ALL 2^(n-1) compositions for encoded length n <= 14, all 1- and "
    "2-cut partitions for n <= 120, generated partitions and bufsizes beyond; oracle = an independent RFC 9112 section 7.1 decoder applied "
    "to the unsegmented stream. Non-trivial: a partition with a cut inside a size line, inside chunk data, or inside / right before a "
    "chunk-terminating CRLF (counted separately); distinct by (stream, partition)."
)
ASSUMPTIONS = [
    "chunk extensions and trailers are not generated (the statement speaks of well-formed chunked bodies of chunk-size, data, CRLF)",
    "each chunk is compressed independently, as dechunk decompresses each chunk independently",
]

ENC = {"none": 1, "gzip": 1 | 2, "compress": 1 | 4, "deflate": 1 | 8, "gzip+deflate": 1 | 2 | 8, "gzip+compress": 1 | 2 | 4, "compress+deflate": 1 | 4 | 8, "gzip+compress+deflate": 1 | 2 | 4 | 8}
# the encoding values "can be OR'd" (SocketWrapper / RTCMReader docstrings): several compression flags mean the chunk
# is decoded gzip first, then zlib, then raw deflate - i.e. it was encoded in the opposite order
LAYERS = ("deflate", "compress", "gzip")  # encoding order, innermost first


def gzip_member(data, wbits, level, flags):
    """a gzip member (RFC 1952) with the optional header fields selected by `flags` (FTEXT 1, FHCRC 2, FEXTRA 4,
    FNAME 8, FCOMMENT 16), a modification time and an OS byte - what `gzip file`, GzipFile(filename=...) or a web
    server produce, as opposed to the bare ten-byte header of zlib.compressobj"""
    c = zlib.compressobj(level, zlib.DEFLATED, -wbits)
    raw = c.compress(data) + c.flush()
    hdr = bytearray(b"\x1f\x8b\x08" + bytes([flags & 0x1F]) + (0x5F5E100).to_bytes(4, "little") + b"\x02\x03")
    if flags & 4:
        extra = b"AP\x06\x00rtcm3\x00"
        hdr += len(extra).to_bytes(2, "little") + extra
    if flags & 8:
        hdr += b"corrections.rtcm3\x00"
    if flags & 16:
        hdr += b"mount point TEST0 \xe9\x00"
    if flags & 2:
        hdr += (zlib.crc32(bytes(hdr)) & 0xFFFF).to_bytes(2, "little")
    return bytes(hdr) + raw + (zlib.crc32(data) & 0xFFFFFFFF).to_bytes(4, "little") + (len(data) & 0xFFFFFFFF).to_bytes(4, "little")


def _compress1(data, layer, wbits, level, gzflags=None):
    if layer == "gzip" and gzflags is not None:
        return gzip_member(data, wbits, level, gzflags)
    if layer == "gzip":
        c = zlib.compressobj(level, zlib.DEFLATED, wbits | 16)
    elif layer == "compress":
        c = zlib.compressobj(level, zlib.DEFLATED, wbits)
    else:
        c = zlib.compressobj(level, zlib.DEFLATED, -wbits)
    return c.compress(data) + c.flush()


def compress(data, enc, wbits=15, level=6, gzflags=None):
    """per-chunk compression as a caster might do it: any window size 2^9..2^15 and any level are valid streams;
    several codings are layered innermost-first (deflate, zlib, gzip)"""
    if enc == "none":
        return data
    for layer in [l for l in LAYERS if l in enc.split("+")]:
        data = _compress1(data, layer, wbits, level, gzflags)
    return data


def decompress(data, enc):
    for layer in reversed([l for l in LAYERS if l in enc.split("+")]):
        if layer == "gzip":
            data = zlib.decompress(data, wbits=zlib.MAX_WBITS | 16)
        elif layer == "compress":
            data = zlib.decompress(data, wbits=zlib.MAX_WBITS)
        else:
            data = zlib.decompress(data, wbits=-zlib.MAX_WBITS)
    return data


def encode(case):
    """(encoded stream, structure map: list of (kind, start, end))"""
    out = bytearray()
    spans = []
    for i, ch in enumerate(case["chunks"]):
        core.note_input(len(ch) // 2)  # decoded size: the library has to walk what the compressed chunk expands to
        body = compress(bytes.fromhex(ch), case["enc"], case.get("wbits", 15), case.get("level", 6), case.get("gzflags"))
        hx = f"{len(body):x}"
        style = case["hexcase"][i % len(case["hexcase"])]
        if style == 1:
            hx = hx.upper()
        elif style == 2:
            hx = "".join(c.upper() if k % 2 else c for k, c in enumerate(hx))
        elif style == 3:
            hx = "0" + hx  # leading zero is allowed by the grammar (1*HEXDIG)
        a = len(out)
        out += hx.encode() + b"\r\n"
        spans.append(("size", a, len(out)))
        a = len(out)
        out += body
        spans.append(("data", a, len(out)))
        a = len(out)
        out += b"\r\n"
        spans.append(("term", a, len(out)))
    if case["terminator"]:
        a = len(out)
        out += b"0\r\n\r\n"
        spans.append(("last", a, len(out)))
    return bytes(out), spans


def reference_decode(stream, enc):
    """RFC 9112 7.1: chunk = chunk-size CRLF chunk-data CRLF; last-chunk = 1*"0" CRLF; then CRLF"""
    pos = 0
    out = bytearray()
    while pos < len(stream):
        eol = stream.index(b"\r\n", pos)
        size = int(stream[pos:eol], 16)
        pos = eol + 2
        if size == 0:
            break
        data = stream[pos : pos + size]
        assert len(data) == size and stream[pos + size : pos + size + 2] == b"\r\n"
        out += decompress(data, enc)
        pos += size + 2
    return bytes(out)


def deliver(encoded, cuts, enc, bufsize, gaps=()):
    from pyrtcm.socketwrapper import SocketWrapper

    events = []
    for k, sg in enumerate(streams.split(encoded, cuts)):
        events.append(sg)
        if gaps and gaps[k % len(gaps)]:
            events.append(["timeout", "oserror:blocking"][gaps[k % len(gaps)] - 1])  # a gap: nothing is lost, the caller polls again
    sock = ScriptedSocket(events + ["close"])
    sock.budget = 4 * len(encoded) + 4 * len(events) + 64
    try:
        w = SocketWrapper(sock, encoding=ENC[enc], bufsize=bufsize)
        out = bytearray()
        while True:
            l0 = len(sock.log)
            r = w.read(1)
            if not r:
                if not any(o in ("eof", "timeout", "oserror") for _, o in sock.log[l0:]):
                    # an empty result means "peer closed or timed out" to every caller (the reader ends its iteration
                    # on it): a receive that merely completed no chunk is not a reason
                    raise Fail("empty-read-without-close-or-timeout", f"read(1) returned nothing after {len(out)} decoded bytes although every receive of this call delivered data ({[o for _, o in sock.log[l0:]][:6]}); enc {enc} bufsize {bufsize}")
                if not sock.closed_by_peer:
                    continue  # timeout / transient error: poll again (bounded by the socket's call budget)
                break
            out += r
            n = len(w.buffer)
            if n:
                out += w.read(n)
        out += bytes(w.buffer)
        return bytes(out)
    finally:
        sock.close()


def cut_classes(cuts, spans):
    cls = set()
    for c in cuts:
        for kind, a, b in spans:
            if a < c < b:
                cls.add({"size": "cut-in-size-line", "data": "cut-in-chunk-data", "term": "cut-inside-terminating-crlf", "last": "cut-in-last-chunk"}[kind])
            if kind == "term" and c == a:
                cls.add("cut-between-data-and-crlf")
    return cls


def run_one(case, encoded, spans, expected, cuts, bufsize):
    try:
        got = deliver(encoded, cuts, case["enc"], bufsize, case.get("gaps") or ())
    except Fail:
        raise
    except Exception as e:  # pylint: disable=broad-except
        raise Fail(f"read-raised-{type(e).__name__}", f"cuts {cuts[:12]} bufsize {bufsize}: {type(e).__name__}: {e}; stream {encoded[:60]!r}") from e
    if got != expected:
        cl = sorted(cut_classes(cuts, spans))
        what = "lost" if len(got) < len(expected) else ("extra" if len(got) > len(expected) else "different")
        raise Fail(f"decoded-bytes-{what}", f"cuts {cuts[:12]} ({cl}) bufsize {bufsize} enc {case['enc']}: delivered {len(got)} bytes, chunk bodies hold {len(expected)}; stream {encoded[:80]!r}")


def o_chunked(case):
    encoded, spans = encode(case)
    expected = reference_decode(encoded, case["enc"])
    if expected != b"".join(bytes.fromhex(c) for c in case["chunks"]):
        raise AssertionError("harness: reference decoder disagrees with the generator")
    n = len(encoded)
    mode = case["mode"]
    cls = set([f"enc-{case['enc']}", mode])
    if "+" in case["enc"]:
        cls.add("layered-compression")
    if any(case.get("gaps") or []):
        cls.add("timeouts-between-receives")
    if case.get("longdist"):
        cls.add("long-distance-back-references")
    if case.get("decsize"):
        cls.add("decoded-size-at-a-buffer-multiple")
    if case.get("gzflags") is not None:
        cls.add("gzip-member-with-optional-header-fields" if case["gzflags"] else "gzip-member-built-by-hand")
    if case.get("wirechunk", 0) >= 0x10000:
        cls.add("chunk-of-64KiB-or-more-on-the-wire")
    if len(expected) > 1024 * 1024:
        cls.add("chunk-decoding-to-more-than-1MiB")
    if case["enc"] != "none" and case.get("wbits", 15) != 15:
        cls.add("small-compression-window")
    if case["enc"] != "none" and any(c == "" for c in case["chunks"]):
        cls.add("compressed-chunk-with-empty-body")
    digs = []
    cnt = 0
    evals = 0
    if mode == "all_partitions":
        if n > 15:
            raise AssertionError("harness: all_partitions on a long stream")
        for mask in range(1 << (n - 1)):
            cuts = [i + 1 for i in range(n - 1) if mask >> i & 1]
            run_one(case, encoded, spans, expected, cuts, 4096)
            evals += 1
            cc = cut_classes(cuts, spans)
            cls |= cc
            if cc:
                cnt += 1
    elif mode == "all_1_2_cuts":
        for a in range(1, n):
            run_one(case, encoded, spans, expected, [a], 4096)
            evals += 1
            cc = cut_classes([a], spans)
            cls |= cc
            if cc:
                cnt += 1
        step = 1 if n <= 60 else 3
        for a in range(1, n, step):
            for b in range(a + 1, n, step):
                run_one(case, encoded, spans, expected, [a, b], 4096)
                evals += 1
                cc = cut_classes([a, b], spans)
                cls |= cc
                if cc:
                    cnt += 1
    else:
        cuts = [c for c in case["cuts"] if 0 < c < n]
        run_one(case, encoded, spans, expected, cuts, case["bufsize"])
        evals = 1
        cc = cut_classes(cuts, spans)
        if case["bufsize"] < n:
            cc.add("bufsize-refines-partition")
        cls |= cc
        if cc:
            digs.append(digest([encoded.hex(), cuts, case["bufsize"]]))
    if mode in ("all_partitions", "all_1_2_cuts"):
        return Res(nontrivial=bool(cnt), classes=sorted(cls), evals=evals, count=cnt)
    return Res(nontrivial=bool(digs), classes=sorted(cls), evals=evals, digests=digs)


_DATA = st.one_of(
    st.lists(st.sampled_from(list(b"\r\n0123456789abcdefABCDEF\r\n\r\n")), min_size=1, max_size=20).map(bytes),
    st.binary(min_size=1, max_size=30),
    st.sampled_from([1, 9, 10, 15, 16, 17, 255, 256, 257, 300]).flatmap(lambda n: st.binary(min_size=n, max_size=n)),
    st.sampled_from([b"\r\n", b"\r", b"\n", b"0\r\n\r\n", b"a\r\nb", b"\r\n3\r\nabc\r\n", b"0\r\n", b"$GNGGA,1*70\r\n", b"10\r\n", b"0", b"\r\n0\r\n"]),
)


@st.composite
def s_chunked(draw, tier):
    mode = draw(st.sampled_from(["all_partitions", "all_1_2_cuts", "generated", "generated"]))
    enc = draw(st.sampled_from(["none", "none", "none", "gzip", "compress", "deflate", "gzip", "compress", "deflate", "gzip+deflate", "gzip+compress", "compress+deflate", "gzip+compress+deflate"]))
    if mode == "all_partitions":
        enc = "none"
        chunks = draw(st.lists(st.binary(min_size=1, max_size=3).map(lambda b: b) | st.sampled_from([b"\r", b"\n", b"a", b"\r\n", b"0"]), min_size=1, max_size=2))
        term = draw(st.booleans())
        case = {"chunks": [c.hex() for c in chunks], "enc": enc, "hexcase": [0], "terminator": term, "mode": mode}
        # keep the encoded length <= 15
        while len(encode(case)[0]) > 15:
            if case["terminator"]:
                case["terminator"] = False
            elif len(case["chunks"]) > 1:
                case["chunks"].pop()
            else:
                case["chunks"] = [case["chunks"][0][:2]]
        return case
    if mode == "all_1_2_cuts":
        chunks = draw(st.lists(st.one_of(st.binary(min_size=1, max_size=12), st.sampled_from([b"\r\n", b"0123456789abcdef", b"\r\n3\r\nabc\r\n", b"0\r\n", b"$GNGGA,1*70\r\n", b"0"])), min_size=1, max_size=4))
        if enc != "none":
            chunks = chunks[:2]
    else:
        chunks = draw(st.lists(_DATA, min_size=0, max_size=6))
    if enc != "none" and chunks and draw(st.integers(0, 2)) == 0:
        # a compressed chunk may be non-empty on the wire and still decode to nothing
        k = draw(st.integers(0, len(chunks) - 1))
        chunks = chunks[:k] + [b""] + chunks[k:]
    case = {
        "chunks": [c.hex() for c in chunks],
        "enc": enc,
        "hexcase": draw(st.lists(st.integers(0, 3), min_size=1, max_size=3)),
        "terminator": draw(st.booleans()),
        "mode": mode,
    }
    if enc != "none":
        case["wbits"] = draw(st.sampled_from([15, 15, 9, 10, 12, 14]))
        case["level"] = draw(st.sampled_from([6, 6, 0, 1, 9]))
        if "gzip" in enc and draw(st.integers(0, 2)) == 0:
            # gzip members with optional header fields (file name, extra field, comment, header CRC, text flag)
            case["gzflags"] = draw(st.sampled_from([0, 8, 8, 4, 16, 2, 1, 8 | 2, 4 | 8 | 16, 31]))
    n = len(encode(case)[0])
    if mode == "all_1_2_cuts" and n > 120:
        case["mode"] = mode = "generated"
    if mode == "generated":
        case["cuts"] = draw(streams.partitions(max(n, 2)))
        case["bufsize"] = draw(st.sampled_from([1, 2, 3, 5, 16, 64, 4096, 4096]))
        case["gaps"] = draw(st.one_of(st.just([]), st.lists(st.sampled_from([0, 1, 1, 2]), min_size=1, max_size=5)))
    return case


def e_big(tier, shard, nshards):
    """one compressed chunk of a few KiB on the wire that decodes to more than 1 MiB (thorough: 5 MiB), then a small one;
    and uncompressed chunks whose size line has five and six hex digits (64 KiB .. 1 MiB on the wire)"""
    k = 0
    for size in ([0x10000, 0x12345] if tier == "quick" else [0xFFFF, 0x10000, 0x12345, 0x100000]):
        k += 1
        if k % nshards != shard:
            continue
        body = bytes((i * 7 + (i >> 8)) & 0xFF for i in range(size))
        yield {"chunks": [b"head".hex(), body.hex(), b"tail".hex()], "enc": "none", "hexcase": [k % 2], "terminator": True, "mode": "generated", "cuts": [3, 5000, 70000], "bufsize": 4096, "gaps": [], "wirechunk": size}
    for enc in ("gzip", "compress", "deflate"):
        for size in ([1200 * 1024] if tier == "quick" else [1200 * 1024, 5 * 1024 * 1024]):
            k += 1
            if k % nshards != shard:
                continue
            body = (b"RTCM" * 256) * (size // 1024)
            yield {"chunks": [body.hex(), b"tail".hex()], "enc": enc, "hexcase": [0], "terminator": True, "mode": "generated", "cuts": [100, 2000], "bufsize": 4096, "gaps": []}
            # incompressible blocks repeated at distances of 5 / 9 / 20 / 30 KiB (back-references across the whole 32 KiB window)
            import hashlib

            for dist in (5000, 9000, 20000, 30000):
                blk = b"".join(hashlib.blake2b(f"{dist}|{j}".encode(), digest_size=64).digest() for j in range(dist // 64 + 1))[:dist]
                yield {"chunks": [(blk * 3).hex(), b"tail".hex()], "enc": enc, "hexcase": [0], "terminator": True, "mode": "generated", "cuts": [100, 2000], "bufsize": 4096, "gaps": [], "longdist": dist}


def e_sizes(tier, shard, nshards):
    """compressed chunks of highly repetitive data whose DECODED size is 3 bytes below .. 3 bytes above a multiple of
    the default buffer size (4096 x 1, 2, 3, 4, 5, 8, 10, 16, 20, 30, 32, 64), for every single coding: a decoder that
    inflates in steps, or bounds its output, meets every remainder and ratios far beyond 100 : 1 (complete over
    sizes x codings x two bodies; both gzip header styles)"""
    from pv import framing as fr

    frame = fr.build_frame(b"\xfe\x80" + bytes(range(20)))
    k = 0
    for m in (1, 2, 3, 4, 5, 8, 10, 16, 20, 30, 32, 64):
        for j in range(-3, 4):
            for enc in ("gzip", "compress", "deflate"):
                for kind in ("zeros", "frames"):
                    k += 1
                    if k % nshards != shard:
                        continue
                    size = m * 4096 + j
                    body = bytes(size) if kind == "zeros" else (frame * (size // len(frame) + 1))[:size]
                    case = {"chunks": [b"head".hex(), body.hex(), b"tail".hex()], "enc": enc, "hexcase": [k % 2], "terminator": True, "mode": "generated", "cuts": [7, 60, 300], "bufsize": 4096, "gaps": [], "decsize": [m, j]}
                    if enc == "gzip" and k % 4 == 0:
                        case["gzflags"] = 8
                    yield case


def e_all(tier, shard, nshards):
    yield from e_big(tier, shard, nshards)
    yield from e_sizes(tier, shard, nshards)


# ------------------------------------------------------------------ well-formed chunks around one undecodable chunk
def o_after_bad(case):
    """a chunk whose body is not a valid compressed stream has no decoded body, so the statement is silent about
    what is delivered for it - but the well-formed chunks before and after it still have theirs"""
    enc = case["enc"]
    chunks = [bytes.fromhex(c) for c in case["chunks"]]
    bad = case["bad"] % (len(chunks) + 1)
    junk = bytes.fromhex(case["junk"])
    if not junk:
        return Res(False, ["empty-junk"])  # a chunk of size 0 is the last-chunk marker, not an undecodable chunk
    try:
        decompress(junk, enc)
        return Res(False, ["junk-happens-to-decode"])
    except zlib.error:
        pass
    out = bytearray()
    bodies = [compress(c, enc) for c in chunks]
    bodies.insert(bad, junk)
    for b in bodies:
        core.note_input(len(b))
        out += f"{len(b):x}".encode() + b"\r\n" + b + b"\r\n"
    if case["terminator"]:
        out += b"0\r\n\r\n"
    encoded = bytes(out)
    pre, post = b"".join(chunks[:bad]), b"".join(chunks[bad:])
    cuts = [c for c in case["cuts"] if 0 < c < len(encoded)]
    try:
        got = deliver(encoded, cuts, enc, case["bufsize"])
    except Fail:
        raise
    except Exception as e:  # pylint: disable=broad-except
        raise Fail(f"read-raised-{type(e).__name__}", f"undecodable chunk #{bad}: {type(e).__name__}: {e}") from e
    if not got.startswith(pre):
        raise Fail("chunks-before-undecodable-chunk-lost", f"enc {enc}: {len(chunks[:bad])} well-formed chunks ({len(pre)} bytes) precede the undecodable chunk, delivered stream starts {got[:40]!r}")
    if not got.endswith(post) or len(got) < len(pre) + len(post):
        raise Fail("chunks-after-undecodable-chunk-not-decoded", f"enc {enc}: {len(chunks[bad:])} well-formed chunks ({len(post)} bytes) follow the undecodable chunk #{bad} but the delivered stream ({len(got)} bytes) does not end with their decoded bodies")
    return Res(nontrivial=bool(post), classes=[f"enc-{enc}", "good-chunks-after" if post else "bad-chunk-last", "good-chunks-before" if pre else "bad-chunk-first"])


@st.composite
def s_after_bad(draw, tier):
    enc = draw(st.sampled_from(["gzip", "compress", "deflate", "gzip+deflate"]))
    chunks = draw(st.lists(_DATA, min_size=1, max_size=5))
    junk = draw(st.one_of(st.binary(min_size=1, max_size=40), st.sampled_from(chunks).map(lambda c: compress(c, enc)[:-3]), st.sampled_from(chunks).map(lambda c: b"\x00" + compress(c, enc))))
    case = {"chunks": [c.hex() for c in chunks], "enc": enc, "bad": draw(st.integers(0, 5)), "junk": junk.hex(), "terminator": draw(st.booleans()), "bufsize": draw(st.sampled_from([1, 16, 64, 4096, 4096]))}
    case["cuts"] = draw(streams.partitions(200))
    return case


def _short(c):
    c = dict(c)
    c["chunks"] = [x[:60] + ("..." if len(x) > 60 else "") for x in c["chunks"]]
    return c


SUBS = [
    Sub(
        "chunked_partitions",
        o_chunked,
        strategy=s_chunked,
        enum=e_all,
        examples=(150, 3000),
        exhaustive=True,
        rule="partitions enumerated completely for short streams (all compositions for n <= 15; all 1- and 2-cut partitions for n <= 120), generated beyond; non-trivial = cut inside size line / chunk data / terminating CRLF",
        need={"cut-in-size-line": 1, "cut-in-chunk-data": 1, "cut-inside-terminating-crlf": 1, "cut-between-data-and-crlf": 1, "enc-gzip": 1, "enc-deflate": 1, "enc-compress": 1, "all_partitions": 1, "small-compression-window": 1, "layered-compression": 1, "timeouts-between-receives": 1, "chunk-decoding-to-more-than-1MiB": 1, "chunk-of-64KiB-or-more-on-the-wire": 1, "decoded-size-at-a-buffer-multiple": 500, "gzip-member-with-optional-header-fields": 10},
        sample=_short,
    ),
    Sub("good_chunks_around_undecodable_chunk", o_after_bad, strategy=s_after_bad, examples=(40, 1200), rule="at least one well-formed compressed chunk follows the undecodable one", need={"good-chunks-after": 1, "good-chunks-before": 1}, sample=_short),
    __import__("pv.fuzz.campaign", fromlist=["make"]).make("C12", ("C12",), runs=(15000, 400000), shards=(4, 16)),
]
