"""C17 - reader options have only their documented effect."""

from hypothesis import strategies as st

from pv import framing, streams
from pv.core import Fail, Res, Sub
from pv.doubles import ScriptedStream

PROPERTY = "C17"
RULE = (
    "streams of valid frames, frames with arbitrary wrong CRC bytes, NMEA and UBX items, read through differently "
    "configured readers (validate x parsed x labelmsm x quitonerror) over a recording stream double; differential oracle: "
    "validate=0 returns every frame and decodes a wrong-CRC frame exactly like the same payload with the right CRC (reader and "
    "static parser); parsed=False returns, on the all-valid version of the stream, the same raw frames as parsed=True with no "
    "parsed objects; in every configuration each returned frame occupies exactly 6 + length-field bytes ending at the stream "
    "position and the whole stream is consumed. Non-trivial: >= 1 wrong-CRC frame and >= 1 foreign item."
)
ASSUMPTIONS = ["no read faults are injected here (that is C01); the stream double only records"]


def pub(m):
    return [(k, v) for k, v in m.__dict__.items() if not k.startswith("_")]


class _View:
    """position / exhaustion of a genuine io.BufferedReader (peek(), read1(), internal buffer of a generated size)"""

    def __init__(self, br, n):
        self.br, self.n = br, n

    @property
    def pos(self):
        return self.br.tell()

    @property
    def exhausted(self):
        return self.br.tell() >= self.n


STREAMKIND = {"kind": "scripted", "bufsize": 16}


def make(data, **kw):
    import io

    from pyrtcm import RTCMReader

    if STREAMKIND["kind"] == "buffered":
        br = io.BufferedReader(io.BytesIO(data), buffer_size=STREAMKIND["bufsize"])
        rdr = RTCMReader(br, **kw)
        stream = _View(br, len(data))
    else:
        stream = ScriptedStream(data, (), slack=32)
        rdr = RTCMReader(stream, **kw)
    return rdr, stream, data, kw


def drive(made):
    rdr, stream, data, kw = made
    out = []
    for _ in range(len(data) + 8):
        try:
            raw, parsed = rdr.read()
        except Fail:
            raise
        except Exception as e:  # pylint: disable=broad-except
            if kw.get("quitonerror") != 2:
                raise
            out.append(("exc", type(e).__name__, stream.pos))
            continue
        if raw is None and parsed is None:
            if stream.exhausted:
                break
            raise Fail("early-end", f"reader stopped at offset {stream.pos} of {len(data)} ({kw})")
        out.append((raw, parsed, stream.pos))
    return out, stream


PRE = {}


def run(data, **kw):
    """drive the reader for this configuration; if the readers were constructed up-front (all configurations alive
    at the same time, as in an application with several connections), use that instance"""
    key = (id(data), tuple(sorted(kw.items())))
    made = PRE.pop(key, None) or make(data, **kw)
    return drive(made)


def spans(out, data, cfg):
    res = []
    for raw, parsed, pos in out:
        if raw == "exc":
            continue
        size = ((raw[1] & 3) << 8) | raw[2]
        if len(raw) != size + 6:
            raise Fail("frame-size", f"{cfg}: returned {len(raw)} bytes for a length field of {size}")
        if data[pos - len(raw) : pos] != raw:
            raise Fail("frame-position", f"{cfg}: returned frame is not the {len(raw)} bytes ending at the stream position {pos}")
        res.append((pos - len(raw), pos))
    return res


def o_opts(case):
    import logging

    STREAMKIND["kind"] = case.get("stream", "scripted")
    STREAMKIND["bufsize"] = case.get("bufsize", 16)
    from pv.core import diagnostics

    try:
        with diagnostics(bool(case.get("debug"))):  # legitimate application settings; must not change what is returned
            return _o_opts(case)
    finally:
        STREAMKIND["kind"] = "scripted"


def _o_opts(case):
    from pyrtcm import RTCMReader
    from pyrtcm.exceptions import RTCMParseError

    ON, OFF = (1, 0) if case.get("intflags") else (True, False)  # "parsed: 1 = raw and parsed, 0 = raw only" (docstring)

    items = case["items"]
    lm = case["labelmsm"]
    qoe = case["qoe"]
    data = streams.join(items)
    fixed_items = []
    for i in items:
        if i["k"] == "badcrc":
            b = bytes.fromhex(i["b"])
            fixed_items.append({"k": "frame", "b": framing.build_frame(b[3:-3]).hex()})
        else:
            fixed_items.append(i)
    gdata = streams.join(fixed_items)
    allframes = [bytes.fromhex(i["b"]) for i in items if i["k"] in ("frame", "badcrc")]
    goodframes = [bytes.fromhex(i["b"]) for i in items if i["k"] == "frame"]
    gall = [bytes.fromhex(i["b"]) for i in fixed_items if i["k"] == "frame"]

    PRE.clear()
    if case.get("preconstruct"):
        # all five readers exist before the first one is read (options must belong to the instance)
        for d, kw in (
            (data, dict(validate=0, quitonerror=qoe, labelmsm=lm, parsed=ON)),
            (data, dict(validate=1, quitonerror=qoe, labelmsm=lm, parsed=ON)),
            (gdata, dict(validate=case["validate"], quitonerror=qoe, labelmsm=lm, parsed=ON)),
            (gdata, dict(validate=case["validate"], quitonerror=qoe, labelmsm=lm, parsed=OFF)),
            (data, dict(validate=case["validate"], quitonerror=qoe, labelmsm=lm, parsed=OFF)),
            (data, dict(validate=1 - case["validate"], quitonerror=(qoe + 1) % 3, labelmsm=3 - lm, parsed=OFF)),
        ):
            PRE[(id(d), tuple(sorted(kw.items())))] = make(d, **kw)
    # validate = 0: everything returned, decoded as with the right CRC
    v0, s0 = run(data, validate=0, quitonerror=qoe, labelmsm=lm, parsed=ON)
    r0 = [x for x in v0 if x[0] != "exc"]
    if [r for r, _, _ in r0] != allframes:
        raise Fail("validate0-frames", f"validate=0 returned {len(r0)} frames, stream holds {len(allframes)} (good or wrong CRC)")
    nfs = sum(len(i["b"]) // 4 for i in items if i.get("falsesync"))  # each "d3 xx" pair is one unknown-header error
    if len(v0) - len(r0) != (nfs if qoe == 2 else 0):
        raise Fail("validate0-raised", f"validate=0 raised {[x[1] for x in v0 if x[0] == 'exc']}; the stream holds {nfs} false sync pair(s) and no other reason to raise")
    for (raw, parsed, _), gf in zip(r0, gall):
        ref = RTCMReader.parse(gf, validate=1, labelmsm=lm)
        if parsed is not None and bytes(parsed.serialize()) != bytes(ref.serialize()):
            raise Fail("validate0-decode-differs", f"frame {raw.hex()[:40]}.. read with validate=0 serialises differently from the same payload with a right CRC")
        if parsed is None or parsed.payload != ref.payload or pub(parsed) != pub(ref):
            raise Fail("validate0-decode-differs", f"frame {raw.hex()[:40]}.. decoded differently from the same payload with a right CRC")
        st_ = RTCMReader.parse(raw, validate=0, labelmsm=lm)
        if pub(st_) != pub(ref):
            raise Fail("validate0-static-differs", f"static parser, validate=0: frame {raw.hex()[:40]}.. decoded differently")
        if raw != gf:
            try:
                RTCMReader.parse(raw, validate=1)
                raise Fail("validate1-accepts-wrong-crc", f"static parser accepted wrong CRC {raw[-3:].hex()}")
            except RTCMParseError:
                pass
    sp0 = spans(v0, data, "validate=0")

    # validate = 1 on the same stream: exactly the good frames, same byte ranges
    v1, s1 = run(data, validate=1, quitonerror=qoe, labelmsm=lm, parsed=ON)
    r1 = [x for x in v1 if x[0] != "exc"]
    if [r for r, _, _ in r1] != goodframes:
        raise Fail("validate1-frames", f"validate=1 returned {len(r1)} frames, expected the {len(goodframes)} good ones")
    sp1 = spans(v1, data, "validate=1")
    if not set(sp1) <= set(sp0):
        raise Fail("byte-accounting", "validate changed which bytes are taken for a frame")
    nexc = len(v1) - len(r1)
    if qoe == 2 and nexc != len(allframes) - len(goodframes) + nfs:
        raise Fail("validate1-raise-count", f"{nexc} exceptions for {len(allframes) - len(goodframes)} wrong-CRC frames and {nfs} false sync pair(s)")

    # parsed = False on the all-valid version: same raw frames as parsed = True, no objects
    pt, spt = run(gdata, validate=case["validate"], quitonerror=qoe, labelmsm=lm, parsed=ON)
    pf, spf = run(gdata, validate=case["validate"], quitonerror=qoe, labelmsm=lm, parsed=OFF)
    pt = [x for x in pt if x[0] != "exc"]  # raise mode: the false sync pairs are reported in both runs
    pf = [x for x in pf if x[0] != "exc"]
    if [x[0] for x in pf] != [x[0] for x in pt] or [x[0] for x in pt] != gall:
        raise Fail("parsed-false-frames", f"parsed=False returned {len(pf)} frames, parsed=True {len(pt)}, stream holds {len(gall)}")
    if any(x[1] is not None for x in pf):
        raise Fail("parsed-false-object", "parsed=False returned a parsed object")
    if spans(pf, gdata, "parsed=False") != spans(pt, gdata, "parsed=True"):
        raise Fail("byte-accounting", "parsed changed which bytes are taken for a frame")
    # parsed = False on the stream with wrong CRCs: byte accounting only
    pb, spb = run(data, validate=case["validate"], quitonerror=qoe, labelmsm=lm, parsed=OFF)
    spans(pb, data, "parsed=False (wrong CRCs present)")
    # validation off and parsing off together: the wrong-checksum frames are still accepted (raw only)
    pb0, spb0 = run(data, validate=0, quitonerror=qoe, labelmsm=lm, parsed=OFF)
    rb0 = [x for x in pb0 if x[0] != "exc"]
    if [x[0] for x in rb0] != allframes or any(x[1] is not None for x in rb0):
        raise Fail("validate0-parsed-false-frames", f"validate=0, parsed=False returned {len(rb0)} frames, the stream holds {len(allframes)} (good or wrong CRC)")
    if not spb0.exhausted:
        raise Fail("byte-accounting", "validate=0 parsed=False: stream not consumed to the end")
    # frames too short to carry a message (0 / 1 payload bytes): with validation off a wrong trailer changes nothing -
    # the outcome is that of the same payload with the right trailer, for the static parser and behind a reader
    for hx in case.get("tiny", []):
        pay = bytes.fromhex(hx)[:1]
        fr = framing.build_frame(pay)
        fw = fr[:-1] + bytes([fr[-1] ^ 0x55])

        def outcome(f, val):
            try:
                return ("ok", pub(RTCMReader.parse(f, validate=val, labelmsm=lm)))
            except Exception as e:  # pylint: disable=broad-except
                return ("exc", type(e).__name__)

        want = outcome(fr, 1)  # the reference: right trailer, validation on
        for f, val, what in ((fr, 0, "right trailer, validate=0"), (fw, 0, "wrong trailer, validate=0")):
            if outcome(f, val) != want:
                raise Fail("validate0-static-differs", f"static parser, {len(pay)}-byte payload: {what} gives {outcome(f, val)[:2]}, right trailer with validate=1 {want[:2]}")
        tail = gall[0] if gall else framing.build_frame(b"\xfe\x80\x01")
        res = []
        for f, val in ((fr, 1), (fr, 0), (fw, 0)):
            got, _ = run(f + tail, validate=val, quitonerror=qoe, labelmsm=lm, parsed=ON)
            res.append([("exc", x[1]) if x[0] == "exc" else ("tiny" if x[0] == f else x[0], x[1] is None) for x in got])
        if res[1] != res[0] or res[2] != res[0]:
            raise Fail("validate0-decode-differs", f"reader: a {len(pay)}-byte-payload frame is treated differently with validate=0 (right trailer {res[1][:2]}, wrong trailer {res[2][:2]}) than with its right trailer and validate=1 ({res[0][:2]})")
    for s, nm in ((s0, "validate=0"), (s1, "validate=1"), (spt, "parsed=True"), (spf, "parsed=False"), (spb, "parsed=False/bad")):
        if not s.exhausted:
            raise Fail("byte-accounting", f"{nm}: stream not consumed to the end")
    nbad = len(allframes) - len(goodframes)
    foreign = any(i["k"] in ("nmea", "ubx", "noise") for i in items)
    cls = [f"qoe{qoe}", f"labelmsm{lm}", f"validate{case['validate']}", "stream-" + case.get("stream", "scripted")] + (["debug-logging"] if case.get("debug") else []) + (["readers-constructed-up-front"] if case.get("preconstruct") else [])
    if any(i.get("falsesync") for i in items):
        cls.append("false-sync-with-reserved-bits")
    if nbad:
        cls.append("has-wrong-crc")
    if any(i["k"] == "badcrc" and i.get("syncy_payload") for i in items):
        cls.append("wrong-crc-frame-with-sync-like-payload")
    if foreign:
        cls.append("has-foreign")
    if case.get("tiny"):
        cls.append("tiny-frames")
    return Res(nontrivial=bool(nbad and foreign), classes=cls, evals=6)


@st.composite
def badcrc(draw):
    src = draw(st.one_of(streams.frames("small"), streams.frames("small"), streams.syncy_frames()))
    f = bytes.fromhex(src["b"])
    crc = draw(st.binary(min_size=3, max_size=3).filter(lambda c: c != f[-3:]))
    extra = {"syncy_payload": src["syncy_payload"]} if "syncy_payload" in src else {}
    return streams.item("badcrc", f[:-3] + crc, **extra)


@st.composite
def s_opts(draw, tier):
    # "d3" followed by a byte with reserved bits set is not a frame header, with validation on or off
    falsesync = st.builds(lambda x, n: streams.item("noise", (b"\xd3" + bytes([x])) * n, falsesync=True), st.sampled_from([0x04, 0x08, 0x40, 0x80, 0x84, 0xFC, 0xFF, 0xD3]), st.integers(1, 3))
    items = draw(st.lists(st.one_of(streams.frames("small"), streams.frames("small"), badcrc(), streams.nmea(), streams.ubx(), streams.inert_noise(), falsesync), min_size=1, max_size=8))
    return {
        "items": items,
        "labelmsm": draw(st.sampled_from([1, 2])),
        "qoe": draw(st.sampled_from([0, 1, 2])),
        "validate": draw(st.sampled_from([0, 1])),
        "stream": draw(st.sampled_from(["scripted", "scripted", "buffered"])),
        "bufsize": draw(st.sampled_from([2, 3, 16, 16, 64, 8192])),
        "debug": draw(st.integers(0, 3)) == 0,
        "preconstruct": draw(st.booleans()),
        "intflags": draw(st.booleans()),
        "tiny": draw(st.lists(st.sampled_from(["", "00", "d3", "3e", "fe"]), min_size=0, max_size=2)),
    }


def _sample(c):
    return {k: (v if k != "items" else [{**i, "b": i["b"][:40] + ("..." if len(i["b"]) > 40 else "")} for i in v]) for k, v in c.items()}


# ------------------------------------------------------------------ one-byte payloads in front of valid frames
def e_tiny(tier, shard, nshards):
    for lo in range(0, 256, 16)[shard::nshards]:
        yield {"payloads": list(range(lo, lo + 16))}


def o_tiny(case):
    """a rightly framed one-byte payload (every byte value; its checksum may end in a sync byte), and the same with a
    wrong trailer ending in each sync byte, directly in front of two valid frames: under every option combination the
    two valid frames come back, in order - the options do not change how many bytes the tiny frame takes"""
    from pv import framing

    v1 = framing.build_frame(bytes.fromhex("3ed00003") + bytes(15))  # 1005, all zero
    v2 = framing.build_frame(bytes.fromhex("fff1a2b3c4"))  # undefined type 4095
    n = 0
    for x in case["payloads"]:
        good = framing.build_frame(bytes([x]))
        variants = [good] + [good[:-1] + bytes([t]) for t in (0xD3, 0x24, 0xB5) if good[-1] != t]
        for k, tiny in enumerate(variants):
            data = tiny + v1 + v2
            for validate in (0, 1):
                for parsed in (True, False):
                    for qoe in (0, 2):
                        cfg = f"payload {x:02x}{' wrong trailer ..%02x' % tiny[-1] if k else ''} validate={validate} parsed={parsed} quitonerror={qoe}"
                        out, _ = drive(make(data, validate=validate, parsed=parsed, quitonerror=qoe))
                        raws = [o[0] for o in out if o[0] != "exc"]
                        rest = [r for r in raws if r != tiny]
                        if rest != [v1, v2]:
                            raise Fail("frames-after-tiny-frame", f"{cfg}: returned {[r.hex()[:16] for r in raws]}; the two valid frames behind the tiny frame must come back whatever the options")
                        n += 1
    return Res(nontrivial=True, classes=["tiny-then-frames"], evals=n)


SUBS = [
    Sub("one_byte_payload_then_frames", o_tiny, enum=e_tiny, exhaustive=True, rule="all 256 one-byte payloads (right checksum, and wrong trailers ending in each sync byte) x validate x parsed x error mode, each directly in front of two valid frames (complete)", sample=lambda c: {"payloads": f"{c['payloads'][0]:02x}..{c['payloads'][-1]:02x}"}),
    Sub("option_differential", o_opts, strategy=s_opts, examples=(150, 3000), rule="see property rule", need={"has-wrong-crc": 1, "has-foreign": 1, "wrong-crc-frame-with-sync-like-payload": 1, "stream-buffered": 1, "debug-logging": 1, "false-sync-with-reserved-bits": 1, "tiny-frames": 1}, sample=_sample),
]
