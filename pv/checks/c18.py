"""C18 - MSM and harmonic-coefficient array helpers agree with the flat attributes."""

from hypothesis import strategies as st

from pv import framing, gen, model, pins
from pv import core
from pv.core import Fail, Res, Sub
from pv.checks.c09 import ref_masks

PROPERTY = "C18"
RULE = (
    "MSM messages of all 49 types and mask shapes (NSat, NCell 0..64): parse_msm must return (meta, sats, cells) whose meta "
    "agrees with the message on identity, station, NSat, NCell and carries the constellation's pinned epoch field; len(sats) == NSat, "
    "len(cells) == NCell; entry i == {base: getattr(msg, base_i)} over exactly the indexed bases the independent interpreter produced "
    "for that MSM level. 4076_201 with 1-4 layers and every combination of the degree and order fields (the order above the degree too; up to 153 cosine coefficients, i.e. "
    "three-digit indices): parse_4076_201 must return per layer the height and exactly the interpreter's cosine / sine values in order. "
    "Every other identity, every unknown number and EVERY number in 1070..1229 (reserved ones included): both helpers return None "
    "and raise nothing. Non-trivial: NSat >= 2 and NCell >= 2, or > 99 coefficients in a layer, or a reserved-MSM number."
)
ASSUMPTIONS = ["the constellation name string in the metadata is pyrtcm vocabulary and is not pinned"]


def o_msm(case):
    core.note_input(len(case.get("payload", "")) // 2 + 1000)  # one message and its attribute names: a bounded amount of helper work
    from pv.core import diagnostics

    with diagnostics(bool(case.get('diag'))):
        return _o_msm(case)


def _o_msm(case):
    from pyrtcm import RTCMMessage
    from pyrtcm.rtcmhelpers import parse_4076_201, parse_msm

    ident = case["ident"]
    p = bytes.fromhex(case["payload"])
    m = RTCMMessage(payload=p, labelmsm=case.get("labelmsm", 1))
    _, w = model.decode(p)
    res = parse_msm(m)
    if not (isinstance(res, tuple) and len(res) == 3):
        raise Fail("msm-helper-shape", f"{ident}: parse_msm returned {type(res).__name__}")
    meta, sats, cells = res
    cons = pins.msm_cons(ident)
    exp_meta = {"identity": ident, "station": w.vals["DF003"], "epoch": w.vals[pins.EPOCH_FIELD[cons]], "sats": w.vals["NSat"], "cells": w.vals["NCell"]}
    for k, v in exp_meta.items():
        if k not in meta or meta[k] != v:
            raise Fail(f"msm-meta-{k}", f"{ident}: meta[{k!r}] = {meta.get(k)!r}, message has {v!r}")
    if not isinstance(meta.get("gnss"), str) or not meta["gnss"]:
        raise Fail("msm-meta-gnss", f"{ident}: meta['gnss'] = {meta.get('gnss')!r}")
    nsat, ncell = w.vals["NSat"], w.vals["NCell"]
    if len(sats) != nsat or len(cells) != ncell:
        raise Fail("msm-array-length", f"{ident}: {len(sats)} satellite entries / {len(cells)} cell entries for NSat={nsat} NCell={ncell}")
    # indexed bases the interpreter produced, grouped by which counter they run over
    satbases, cellbases = [], []
    d = model.definition(ident)
    for k, v in d.items():
        if isinstance(v, tuple) and v[0] == "NSat":
            satbases += list(v[1])
        if isinstance(v, tuple) and v[0] == "NCell":
            cellbases += list(v[1])
    for arr, bases, n, nm in ((sats, satbases, nsat, "satellite"), (cells, cellbases, ncell, "cell")):
        for i in range(1, n + 1):
            ent = arr[i - 1]
            want = {b: getattr(m, f"{b}_{i:02d}") for b in bases}
            if ent != want:
                miss = [b for b in bases if b not in ent]
                bad = [b for b in bases if b in ent and ent[b] != want[b]]
                extra = [b for b in ent if b not in want]
                raise Fail(f"msm-{nm}-entry", f"{ident}: {nm} entry {i}: missing {miss} wrong {bad} extra {extra}")
            # and against the interpreter (not only against the message itself)
            for b in bases:
                mv = w.vals[f"{b}_{i:02d}"]
                if not isinstance(mv, model.Derived) and ent[b] != mv:
                    raise Fail(f"msm-{nm}-entry", f"{ident}: {nm} entry {i} {b} = {ent[b]!r}, bits encode {mv!r}")
    other = parse_4076_201(m)
    if other is not None:
        raise Fail("vtec-helper-on-msm", f"{ident}: parse_4076_201 returned {type(other).__name__}")
    if not case.get("_second"):
        # the same payload under the other label option, then look at BOTH results again: a helper result belongs to
        # the message it was computed from, whatever is converted afterwards
        lm2 = 3 - case.get("labelmsm", 1)
        m2 = RTCMMessage(payload=p, labelmsm=lm2)
        res2 = parse_msm(m2)
        triples = [(m, res, case.get("labelmsm", 1)), (m2, res2, lm2)]
        if case.get("other"):
            m3 = RTCMMessage(payload=bytes.fromhex(case["other"]), labelmsm=lm2)
            triples.append((m3, parse_msm(m3), lm2))
        for mm, rr, lmx in triples:
            ident = mm.identity
            if not (isinstance(rr, tuple) and len(rr) == 3):
                raise Fail("msm-helper-result-shape", f"{ident} labelmsm={lmx} (NSat {mm.NSat}, NCell {mm.NCell}): parse_msm returned {type(rr).__name__}, not (metadata, satellites, cells)")
            meta_x, sats_x, cells_x = rr
            if meta_x.get("identity") != ident or meta_x.get("sats") != mm.NSat or meta_x.get("cells") != mm.NCell or meta_x.get("station") != mm.DF003:
                raise Fail("msm-result-changed-by-later-call", f"{ident} labelmsm={lmx}: metadata of an earlier result no longer matches its message after a later parse_msm call")
            for i, ent in enumerate(cells_x, 1):
                if ent.get("CELLSIG") != getattr(mm, f"CELLSIG_{i:02d}") or ent.get("CELLPRN") != getattr(mm, f"CELLPRN_{i:02d}"):
                    raise Fail("msm-result-mixes-label-options", f"{ident} labelmsm={lmx}: cell {i} CELLSIG {ent.get('CELLSIG')!r} but the message has {getattr(mm, f'CELLSIG_{i:02d}')!r}")
    if not case.get("_second"):
        # what the caller does with a result (rows edited in place, keys added or dropped) is the caller's business: the
        # next conversion of the same message must again equal the message
        import copy

        snap = copy.deepcopy(res)
        meta["station"] = "edited"
        meta.pop("epoch", None)
        for arr in (sats, cells):
            for ent in arr:
                for k in list(ent)[:2]:
                    ent[k] = "edited"
                if len(ent) > 2:
                    ent.pop(list(ent)[-1])
                ent["added"] = 1
            arr.append({"added": 1})
        again = parse_msm(m)
        if again != snap:
            raise Fail("msm-result-shared-with-caller", f"{case['ident']}: after the caller edited an earlier result in place, parse_msm of the same message no longer equals its first result")
    cls = [cons, f"msm{pins.msm_level(ident)}"]
    if nsat == 0:
        cls.append("nsat0")
    if ncell == 0:
        cls.append("ncell0")
    if nsat >= 10:
        cls.append("nsat>=10")
    if ncell >= 10:
        cls.append("ncell>=10")
    return Res(nontrivial=nsat >= 2 and ncell >= 2, classes=cls)


def plan_msm(tier, shard, nshards):
    ids = pins.msm_ids()[shard::nshards]
    n = 25 if tier == "quick" else 800
    return [(i, st.builds(lambda c, lm, o: {**c, "labelmsm": lm, "other": o["payload"]}, gen.messages(i, "small"), st.sampled_from([1, 2]), st.sampled_from(pins.msm_ids()).flatmap(lambda j: gen.messages(j, "small"))).flatmap(lambda c: st.booleans().map(lambda d: {**c, "diag": d})), n) for i in ids]


def o_vtec(case):
    core.note_input(len(case.get("payload", "")) // 2 + 1000)  # one message and its attribute names: a bounded amount of helper work
    from pv.core import diagnostics

    with diagnostics(bool(case.get('diag'))):
        return _o_vtec(case)


def _o_vtec(case):
    from pyrtcm import RTCMMessage
    from pyrtcm.rtcmhelpers import parse_4076_201, parse_msm

    p = bytes.fromhex(case["payload"])
    m = RTCMMessage(payload=p)
    _, w = model.decode(p)
    res = parse_4076_201(m)
    if not isinstance(res, dict):
        raise Fail("vtec-helper-shape", f"parse_4076_201 returned {type(res).__name__}")
    nl = w.vals["IDF035"] + 1
    if len(res) != nl:
        raise Fail("vtec-layer-count", f"{len(res)} layers returned, message has {nl}")
    maxc = 0
    for lyr in range(nl):
        ent = res.get(lyr)
        if ent is None:
            raise Fail("vtec-layer-key", f"layer {lyr} missing; keys {list(res)}")
        h = w.vals[f"IDF036_{lyr + 1:02d}"]
        if ent.get("Layer Height") != h:
            raise Fail("vtec-layer-height", f"layer {lyr}: height {ent.get('Layer Height')!r}, bits encode {h!r}")
        cos = [v for k, v in w.vals.items() if k.startswith(f"IDF039_{lyr + 1:02d}_")]
        sin = [v for k, v in w.vals.items() if k.startswith(f"IDF040_{lyr + 1:02d}_")]
        lists = [v for k, v in ent.items() if isinstance(v, list)]
        if len(lists) != 2:
            raise Fail("vtec-entry-shape", f"layer {lyr}: {len(lists)} coefficient lists")
        gc, gs = ent.get("Cosine Coefficients"), ent.get("Sine Coefficients")
        if gc != cos:
            raise Fail("vtec-cosine", f"layer {lyr}: {len(gc) if gc is not None else None} cosine coefficients returned, {len(cos)} decoded" + ("" if gc is None or len(gc) != len(cos) else "; values differ"))
        if gs != sin:
            raise Fail("vtec-sine", f"layer {lyr}: {len(gs) if gs is not None else None} sine coefficients returned, {len(sin)} decoded" + ("" if gs is None or len(gs) != len(sin) else "; values differ"))
        maxc = max(maxc, len(cos), len(sin))
    if parse_msm(m) is not None:
        raise Fail("msm-helper-on-vtec", "parse_msm returned a value for 4076_201")
    cls = [f"layers{nl}"]
    if any(w.vals[f"IDF038_{l + 1:02d}"] > w.vals[f"IDF037_{l + 1:02d}"] for l in range(nl)):
        cls.append("order>degree")
    if maxc > 99:
        cls.append("coefficients>99")
    if maxc > 9:
        cls.append("coefficients>9")
    return Res(nontrivial=maxc > 99 or nl > 1, classes=cls)


def s_vtec(tier):
    return st.builds(lambda c, d: {**c, "diag": d}, _s_vtec(tier), st.booleans())


def _s_vtec(tier):
    return st.one_of(gen.messages("4076_201", "mixed"), gen.messages("4076_201", "small"), gen.messages("4076_201", "max"), gen.messages("4076_201", "anyorder"))


def o_none(case):
    core.note_input(len(case.get("payload", "")) // 2 + 1000)  # one message and its attribute names: a bounded amount of helper work
    from pv.core import diagnostics

    with diagnostics(bool(case.get('diag'))):
        return _o_none(case)


def _o_none(case):
    """helpers on anything that is neither an implemented MSM type nor 4076_201"""
    from pyrtcm import RTCMMessage
    from pyrtcm.rtcmhelpers import parse_4076_201, parse_msm

    p = bytes.fromhex(case["payload"])
    if case.get("lookalike"):
        # a generic body under a chosen number: when the type is defined the body may not fit its definition
        from pv.checks.c04 import lib_errors

        try:
            m = RTCMMessage(payload=p)
        except lib_errors():
            return Res(nontrivial=False, classes=["lookalike-body-does-not-fit-the-definition"])
    else:
        m = RTCMMessage(payload=p)
    ident = framing.ref_identity(p)
    r1 = parse_msm(m)
    r2 = parse_4076_201(m)
    if r1 is not None:
        raise Fail("msm-helper-on-non-msm", f"{ident}: parse_msm returned {type(r1).__name__}")
    if r2 is not None:
        raise Fail("vtec-helper-on-other", f"{ident}: parse_4076_201 returned {type(r2).__name__}")
    n = framing.msgnum(p)
    cls = ["reserved-msm-number" if 1070 <= n <= 1229 else ("defined" if model.definition(ident) else "unknown")]
    if case.get("lookalike"):
        cls.append("subtype-201-bits-under-another-number")
    return Res(nontrivial=1070 <= n <= 1229, classes=cls, evals=2)


def e_none(tier, shard, nshards):
    """every number 1070..1229 without an MSM definition (complete), plus every other defined identity is covered by plan_none"""
    k = 0
    for n in range(1070, 1230):
        if model.definition(str(n)) is not None:
            continue
        for tail in (b"", b"\x00" * 4, b"\xff" * 30):
            k += 1
            if k % nshards != shard:
                continue
            yield {"payload": (bytes([n >> 4, (n & 0xF) << 4]) + tail).hex(), "diag": bool(k & 1)}


def e_lookalike(tier, shard, nshards):
    """EVERY message number except 4076 with the bits that would be the IGS version and sub-type of a 4076 message
    (payload bits 12..22) set to version 0..7, sub-type 201: the relation "this is a 4076_201 message" is between the
    number AND the sub-type, never the sub-type alone (complete over numbers x versions; bodies of zeros and of ones)"""
    k = 0
    for n in range(4096):
        if n == 4076 or (1070 <= n <= 1229):
            continue
        for v in range(8):
            k += 1
            if k % nshards != shard:
                continue
            head = (n << 12) | (v << 9) | (201 << 1) | (k & 1)
            yield {"payload": (head.to_bytes(3, "big") + (bytes(80) if k & 2 else b"\xff" * 80)).hex(), "lookalike": True, "diag": False}


def e_none_all(tier, shard, nshards):
    yield from e_none(tier, shard, nshards)
    yield from e_lookalike(tier, shard, nshards)


def plan_none(tier, shard, nshards):
    msm = set(pins.msm_ids())
    ids = [i for i in gen.all_idents_safe() if i not in msm and i != "4076_201"][shard::nshards]
    n = 3 if tier == "quick" else 60
    out = [(i, gen.messages(i, "small"), n) for i in ids]
    out.append(("unknown", gen.unknown_payloads("small").map(lambda b: {"payload": b.hex()}), 20 if tier == "quick" else 500))
    return [(lab, st.builds(lambda c, d: {**c, "diag": d}, strat, st.booleans()), n) for lab, strat, n in out]


def _short(c):
    c = dict(c)
    if len(c.get("payload", "")) > 160:
        c["payload_len"] = len(c["payload"]) // 2
        c["payload"] = c["payload"][:160] + "..."
    return c


SUBS = [
    Sub("msm_arrays", o_msm, plan=plan_msm, rule="NSat >= 2 and NCell >= 2", need={"nsat0": 1, "ncell0": 1, "ncell>=10": 1}, sample=_short),
    Sub("vtec_coefficients", o_vtec, strategy=s_vtec, examples=(30, 800), rule="> 99 coefficients in a layer or more than one layer", need={"coefficients>99": 1}, sample=_short),
    Sub("helpers_return_none", o_none, plan=plan_none, enum=e_none_all, rule="number in 1070..1229 without definition", need={"reserved-msm-number": 1, "unknown": 1, "defined": 1, "subtype-201-bits-under-another-number": 20000}, sample=_short),
]
