"""harness self-checks run by bin/setup (exit 1 on failure)"""
import sys


def main():
    from pv import framing  # import runs the CRC self-check

    framing.selfcheck()
    from pv import model

    ids = model.identities()
    assert len(ids) > 100, len(ids)
    print(f"selfcheck ok: {len(ids)} identities, CRC references agree with catalogue value")
    return 0


if __name__ == "__main__":
    sys.exit(main())
