"""Shared runner machinery: sub-check description, oracle verdicts, Hypothesis
driving (collect - bucket - shrink), sharding, evidence, replay files, known
findings.  See DESIGN.md section 2.
"""

import hashlib
import json
import os
import sys
import time
import traceback
from collections import Counter

ROOT = os.path.dirname(os.path.dirname(os.path.abspath(__file__)))
REPO = os.environ.get("PV_REPO", "/repo")
REPO_SRC = os.path.join(REPO, "src")


class Fail(Exception):
    """the oracle's verdict: the property is violated by this case"""

    def __init__(self, clause, msg=""):
        super().__init__(f"{clause}: {msg}")
        self.clause = clause
        self.msg = msg


class HarnessError(Exception):
    """the harness is wrong or starved (never reported as a violation)"""


class Res:
    """oracle result for a case on which the property held"""

    __slots__ = ("nontrivial", "classes", "evals", "digests", "count")

    def __init__(self, nontrivial=False, classes=(), evals=1, digests=None, count=None):
        self.nontrivial = nontrivial
        self.classes = tuple(classes)
        self.evals = evals  # oracle evaluations performed inside this case
        self.digests = digests  # optional list of digests of distinct non-trivial sub-cases
        # optional: number of non-trivial sub-cases inside this case that are distinct by construction (enumerations);
        # counted once per distinct case (cases are de-duplicated by digest), so no per-sub-case digest has to be kept
        self.count = count


class Sub:
    """one sub-check of a property.

    strategy(tier) -> Hypothesis strategy of JSON-able cases (or None)
    enum(tier, shard, nshards) -> iterator of JSON-able cases (or None)
    oracle(case) -> Res, raises Fail
    """

    def __init__(
        self,
        name,
        oracle,
        strategy=None,
        enum=None,
        examples=(100, 1000),
        shards=(16, 16),
        exhaustive=False,
        rule="",
        need=None,
        sample=None,
        plan=None,
    ):
        self.name = name
        self.oracle = oracle
        self.strategy = strategy
        self.enum = enum
        self.examples = {"quick": examples[0], "thorough": examples[1]}
        self.shards = {"quick": shards[0], "thorough": shards[1]}
        self.exhaustive = exhaustive
        self.rule = rule
        self.need = need or {}  # class -> minimum total count (vacuity guard)
        self.sample = sample or (lambda case: case)
        self._plan = plan

    def plan(self, tier, shard, nshards, scale=1.0):
        """list of (label, strategy, n_examples) this shard drives through Hypothesis"""
        if self._plan is not None:
            return [(lab, strat, max(1, int(n * scale))) for lab, strat, n in self._plan(tier, shard, nshards)]
        if self.strategy is None:
            return []
        return [("", self.strategy(tier), max(1, int(self.examples[tier] * scale)))]


def lib_frame(exc):
    """innermost frame of exc's traceback that lies in the pyrtcm sources, as 'file:func'"""
    best = None
    for fs in traceback.extract_tb(exc.__traceback__):
        fn = fs.filename
        if os.sep + "pyrtcm" + os.sep in fn and fn.startswith(REPO_SRC):
            best = f"{os.path.basename(fn)}:{fs.name}"
    return best


def innermost_is_lib(exc):
    tb = traceback.extract_tb(exc.__traceback__)
    if not tb:
        return False
    # walk from the innermost frame outwards; stdlib frames are transparent
    for fs in reversed(tb):
        fn = fs.filename
        if fn.startswith(REPO_SRC):
            return True
        if fn.startswith(ROOT):
            return False
    return False


def digest(obj) -> bytes:
    s = json.dumps(obj, sort_keys=True, separators=(",", ":"), default=str)
    return hashlib.blake2b(s.encode(), digest_size=8).digest()


def derive_seed(seed, name, shard):
    h = hashlib.blake2b(f"{seed}|{name}|{shard}".encode(), digest_size=8).digest()
    return int.from_bytes(h, "big")


class ShardResult:
    def __init__(self):
        self.evals = 0
        self.cases = 0
        self.nontrivial = set()
        self.case_counts = {}
        self.classes = Counter()
        self.samples = []
        self.failures = {}  # bucket -> {"case":..., "msg":..., "count": n}
        self.harness_errors = []
        self.wall = 0.0


CASE_LIMIT_S = int(os.environ.get("PV_CASE_LIMIT_S", "120"))  # wall-clock trigger for the step count below, never a verdict
CONFIRM_LIMIT_S = int(os.environ.get("PV_CONFIRM_LIMIT_S", "2400"))
# Deterministic step budget for ONE oracle evaluation, in line events executed inside the pyrtcm package:
# STEP_BASE + STEP_PER_BYTE * (input bytes the oracle declared through note_input()). Measured on the unchanged tree
# (PV_TRACE_STEPS) the heaviest cases stay below 6 % of it; see DESIGN.md 8.2. Without a declared input size there is
# no verdict from the step count (a long evaluation is then reported as inconclusive).
STEP_BASE = int(os.environ.get("PV_STEP_BASE", "5000000"))
STEP_PER_BYTE = int(os.environ.get("PV_STEP_PER_BYTE", "10000"))
_INPUT = [0]


def note_input(nbytes):
    """oracles / test doubles declare how many input bytes (plus scripted stream events) they hand to the library"""
    _INPUT[0] += int(nbytes)


SHRINK_LIMIT_S = int(os.environ.get("PV_SHRINK_LIMIT_S", "20"))
_SHRINKING = [False]


class _CaseTimeout(BaseException):
    pass


class _StepBudget(BaseException):
    pass


def _alarm(signum, frame):
    raise _CaseTimeout()


def _save_timeout(sub, case):
    d = os.path.join(ROOT, "replays", "_timeouts")
    os.makedirs(d, exist_ok=True)
    path = os.path.join(d, f"{sub.name}-{hashlib.blake2b(json.dumps(case, sort_keys=True, default=str).encode(), digest_size=6).hexdigest()}.json")
    with open(path, "w", encoding="utf-8") as f:
        json.dump({"subcheck": sub.name, "case": case}, f, default=str)
    return path


def _count_library_steps(sub, case):
    """re-run one oracle evaluation counting the line events executed inside the pyrtcm package (deterministic for a
    given case: no clock involved). More than STEP_BASE + STEP_PER_BYTE x declared input bytes of them - at least fifteen times
    what the heaviest generated cases need - means the library does not terminate on that input."""
    import pyrtcm

    libdir = os.path.dirname(os.path.abspath(pyrtcm.__file__)) + os.sep
    n = [0]
    _INPUT[0] = 0

    def local(frame, event, arg):
        if event == "line":
            n[0] += 1
            if n[0] & 0xFFFF == 0 and _INPUT[0] and n[0] > STEP_BASE + STEP_PER_BYTE * _INPUT[0]:
                raise _StepBudget()
        return local

    def glob(frame, event, arg):
        return local if frame.f_code.co_filename.startswith(libdir) else None

    sys.settrace(glob)
    try:
        return sub.oracle(case)
    finally:
        sys.settrace(None)
        _note_steps(sub, n[0], _INPUT[0])


_MAXSTEPS = {}


def _note_steps(sub, n, declared):
    """developer aid (PV_TRACE_STEPS=<dir>): record, per sub-check and process, the evaluation that came closest to
    its step budget"""
    d = os.environ.get("PV_TRACE_STEPS")
    if not d:
        return
    frac = n / (STEP_BASE + STEP_PER_BYTE * declared) if declared else 0.0
    best = _MAXSTEPS.get(sub.name, (-1.0, 0, 0))
    if (frac, n) > best[:2]:
        _MAXSTEPS[sub.name] = (frac, n, declared)
        os.makedirs(d, exist_ok=True)
        with open(os.path.join(d, f"{sub.name}.{os.getpid()}"), "w", encoding="utf-8") as f:
            json.dump([frac, n, declared], f)


def _oracle_with_watchdog(sub, case):
    """A single oracle evaluation that runs for minutes means the code under test (or the harness) loops. Wall-clock
    time is never the verdict: the case is evaluated again under a deterministic step count; only exceeding that
    count is reported (clause non-termination). If the second run neither finishes nor exceeds the count within
    CONFIRM_LIMIT_S, the harness itself is stuck: harness error (inconclusive, exit 2) with the case saved."""
    import signal
    import threading

    if threading.current_thread() is not threading.main_thread():
        return sub.oracle(case)
    if os.environ.get("PV_TRACE_STEPS"):
        return _count_library_steps(sub, case)
    old = signal.signal(signal.SIGALRM, _alarm)
    signal.alarm(SHRINK_LIMIT_S if _SHRINKING[0] else CASE_LIMIT_S)
    try:
        try:
            return sub.oracle(case)
        except _CaseTimeout:
            if _SHRINKING[0]:
                # a shrink candidate for ANOTHER bucket that runs long: simply not a candidate (no verdict is derived)
                raise Fail("shrink-candidate-ran-long", "discarded") from None
            signal.alarm(CONFIRM_LIMIT_S)
            try:
                r = _count_library_steps(sub, case)
                path = _save_timeout(sub, case)
                log(f"[slow] {sub.name}: one evaluation ran longer than {CASE_LIMIT_S}s; the step count finished within its budget (no verdict); case saved to {path}")
                return r
            except _StepBudget:
                f = Fail("non-termination", f"one evaluation executed more than {STEP_BASE} + {STEP_PER_BYTE} x {_INPUT[0]} library line events ({_INPUT[0]} = input bytes and stream events handed to the library) without finishing")
                f.no_shrink = True
                raise f from None
            except _CaseTimeout:
                path = _save_timeout(sub, case)
                raise HarnessError(f"{sub.name}: one case ran longer than {CASE_LIMIT_S}+{CONFIRM_LIMIT_S}s without exceeding the library step budget (inconclusive; declared input {_INPUT[0]}); case saved to {path}") from None
    finally:
        signal.alarm(0)
        signal.signal(signal.SIGALRM, old)


def evaluate(sub, case, res, want_samples=3):
    """run the oracle on one case, recording instead of raising"""
    if getattr(res, "stopped", False):
        return None  # this shard already holds a non-terminating case: each further one would cost minutes
    try:
        if isinstance(case, dict) and case.get("__checkdefs__"):
            from pv import model

            model.check_all_definitions()
            r = Res(False, ["definitions-walkable"])
        else:
            r = _oracle_with_watchdog(sub, case)
    except Fail as f:
        bucket = f"{sub.name}|{f.clause}"
        ent = res.failures.get(bucket)
        if ent is None:
            res.failures[bucket] = {"case": case, "msg": f.msg[:2000], "count": 1}
        else:
            ent["count"] += 1
        if getattr(f, "no_shrink", False):
            res.failures[bucket]["no_shrink"] = True
            res.stopped = True
        res.evals += 1
        res.cases += 1
        return bucket
    except HarnessError:
        raise
    except BaseException as e:  # pylint: disable=broad-except
        from pv.model import BadDefinition

        if type(e).__name__ == "HardStop":
            # the code under test swallowed the budget Fail and kept calling the stream
            bucket = f"{sub.name}|non-termination"
            ent = res.failures.get(bucket)
            if ent is None:
                res.failures[bucket] = {"case": case, "msg": "stream / socket called far beyond its call budget (exceptions from the double were swallowed)", "count": 1}
            else:
                ent["count"] += 1
            res.evals += 1
            res.cases += 1
            return bucket
        if not isinstance(e, Exception):
            raise

        if isinstance(e, BadDefinition):
            # the repository's definition table is malformed: a verdict (C03/C10), not a harness fault
            bucket = f"{sub.name}|definition-malformed"
            ent = res.failures.get(bucket)
            if ent is None:
                res.failures[bucket] = {"case": case, "msg": str(e)[:2000], "count": 1}
            else:
                ent["count"] += 1
            res.evals += 1
            res.cases += 1
            return bucket
        if innermost_is_lib(e):
            bucket = f"{sub.name}|lib-raised:{type(e).__name__}@{lib_frame(e)}"
            ent = res.failures.get(bucket)
            msg = "".join(traceback.format_exception_only(type(e), e)).strip()
            if ent is None:
                res.failures[bucket] = {"case": case, "msg": msg[:2000], "count": 1}
            else:
                ent["count"] += 1
            res.evals += 1
            res.cases += 1
            return bucket
        raise
    res.cases += 1
    res.evals += r.evals
    for c in r.classes:
        res.classes[c] += 1
    if r.count is not None:
        if r.count:
            res.case_counts[digest(case)] = r.count
    elif r.digests is not None:
        res.nontrivial.update(r.digests)
    elif r.nontrivial:
        res.nontrivial.add(digest(case))
    if r.nontrivial and len(res.samples) < want_samples:
        res.samples.append(sub.sample(case))
    return None


def _settings(n, shrink=False):
    from hypothesis import HealthCheck, Phase, settings

    return settings(
        max_examples=n,
        database=None,
        deadline=None,
        derandomize=False,
        report_multiple_bugs=False,
        print_blob=False,
        suppress_health_check=[HealthCheck.too_slow, HealthCheck.data_too_large, HealthCheck.large_base_example],
        phases=[Phase.generate, Phase.shrink] if shrink else [Phase.generate],
    )


def run_shard(sub, tier, seed, shard, nshards, scale=1.0):
    """generate / enumerate the cases of one shard and evaluate them"""
    import hypothesis
    from hypothesis import given

    res = ShardResult()
    t0 = time.monotonic()
    if sub.enum is not None:
        for case in sub.enum(tier, shard, nshards):
            evaluate(sub, case, res)
    for label, strat, n in sub.plan(tier, shard, nshards, scale):
        before = set(res.failures)

        @hypothesis.seed(derive_seed(seed, sub.name + "/" + label, shard))
        @_settings(n)
        @given(strat)
        def drive(case):
            evaluate(sub, case, res)

        try:
            drive()
        except hypothesis.errors.FailedHealthCheck as e:
            raise HarnessError(f"{sub.name}/{label}: generator health check failed: {e}") from e
        except Exception as e:  # pylint: disable=broad-except
            from pv.model import BadDefinition

            if not isinstance(e, BadDefinition):
                raise
            # the generator itself could not walk a definition: a verdict about the tables (replayable case)
            evaluate(sub, {"__checkdefs__": True}, res)
            if not res.failures:
                raise
        for b in set(res.failures) - before:
            res.failures[b]["label"] = label
    res.wall = time.monotonic() - t0
    return res


def shrink_case(sub, tier, seed, shard, nshards, bucket, first_case, first_label, budget_s, scale=1.0):
    """re-run the shard's generation with 'fails in this bucket' as the predicate and let
    Hypothesis shrink it; falls back to the first recorded case"""
    import hypothesis
    from hypothesis import given

    label = first_label
    plan = [p for p in sub.plan(tier, shard, nshards, scale) if p[0] == label]
    if not plan:
        return first_case
    _, strat, n = plan[0]
    deadline = time.monotonic() + budget_s
    best = {"case": None, "size": None}

    def fails(case):
        tmp = ShardResult()
        return evaluate(sub, case, tmp) == bucket

    @hypothesis.seed(derive_seed(seed, sub.name + "/" + label, shard))
    @_settings(n, shrink=True)
    @given(strat)
    def drive(case):
        if time.monotonic() > deadline:
            return
        if fails(case):
            size = len(json.dumps(case, default=str))
            if best["size"] is None or size <= best["size"]:
                best["case"], best["size"] = case, size
            raise AssertionError("target bucket")

    _SHRINKING[0] = True
    try:
        drive()
    except BaseException:  # pylint: disable=broad-except
        pass
    finally:
        _SHRINKING[0] = False
    if best["case"] is not None and fails(best["case"]):
        return best["case"]
    return first_case


def write_replay(prop, subname, bucket, case, msg):
    d = os.path.join(ROOT, "replays", prop)
    os.makedirs(d, exist_ok=True)
    h = hashlib.blake2b(json.dumps([bucket, case], sort_keys=True, default=str).encode(), digest_size=6).hexdigest()
    path = os.path.join(d, f"{subname}-{h}.json")
    with open(path, "w", encoding="utf-8") as f:
        json.dump(
            {"property": prop, "subcheck": subname, "bucket": bucket, "message": msg, "case": case},
            f,
            indent=1,
            sort_keys=True,
            default=str,
        )
    return path


def log(*a):
    print(*a, file=sys.stderr, flush=True)


def quiet_logging():
    """library log output (error mode 'log' without handler) must not flood stderr; handlers that
    sub-checks attach to 'pyrtcm.rtcmreader' still see every record"""
    import logging

    lg = logging.getLogger("pyrtcm")
    lg.addHandler(logging.NullHandler())
    lg.propagate = False


quiet_logging()


import contextlib  # noqa: E402


@contextlib.contextmanager
def diagnostics(on=True):
    """process-wide diagnostic settings an application may legitimately use: DEBUG logging for the library's loggers
    and warnings turned into errors (-W error / pytest filterwarnings=error).  Neither may change what the library
    returns or raises."""
    import logging
    import warnings

    if not on:
        yield
        return
    names = ["pyrtcm"] + [n for n in logging.root.manager.loggerDict if n.startswith("pyrtcm.")]
    old = {n: logging.getLogger(n).level for n in names}
    for n in names:
        logging.getLogger(n).setLevel(logging.DEBUG)
    try:
        with warnings.catch_warnings():
            warnings.simplefilter("error")
            yield
    finally:
        for n, lv in old.items():
            logging.getLogger(n).setLevel(lv)
