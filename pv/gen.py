"""M4 - Hypothesis strategies.  Every random choice is a Hypothesis draw."""

from hypothesis import strategies as st

from pv import framing, model
from pv.model import BUDGET, Walk

_NM_PAIRS = {}


def nm_pairs(anyorder=False):
    """(n_raw, m_raw, coefficient bits) for every degree/order pair; order <= degree (what IGS SSR defines) unless
    `anyorder`: then all 256 field combinations - with the order above the degree the count formula shrinks again and
    can go negative, which both the parser and the interpreter read as an empty coefficient group"""
    if anyorder not in _NM_PAIRS:
        out = []
        for n in range(16):
            for m in range(16 if anyorder else n + 1):
                nc, ns = model.harm_counts(n, m)
                out.append((n, m, 16 * (max(nc, 0) + max(ns, 0))))
        _NM_PAIRS[anyorder] = out
    return _NM_PAIRS[anyorder]


_MAGIC = sorted({9, 10, 15, 16, 59, 60, 63, 99, 100, 127, 128, 255, 256, 359, 360, 999, 1000, 1023, 1024, 3599, 3600, 4095, 4096, 9999, 10000, 32767, 32768, 65535, 86399, 86400, 86401, 99999, 100000, 604799, 604800, 999999, 1000000, 86399999, 86400000, 86400500, 86400999, 86401000, 604799999, 604800000, 604800999, 999999999, 1000000000})


def draw_raw(draw, width, hist=None, offset=0):
    """raw field value biased to 0 / all ones / sign bit only; with a history of the values drawn earlier for the same
    message, also to a value that stands in a relation to them (equal to an earlier field, one more or less than the
    previous one, their sum) or to the position of the field itself (its bit or byte offset, its width)"""
    if width == 0:
        return 0
    k = draw(st.integers(0, 12 if hist else 10))
    if k == 10 + (2 if hist else 0):
        # round decimal numbers and calendar boundaries that fill this width: the values placeholders, "not available"
        # conventions and time conversions are made of (999, -999, 86 400 000 ms in a day and its leap second,
        # 604 800 000 ms in a week ...), as a positive number and as its two's complement
        fit = [v for v in _MAGIC if width - 7 <= v.bit_length() <= width - (1 if width > 1 else 0)] or [v for v in _MAGIC if v.bit_length() <= width][-6:]
        if fit:
            v = draw(st.sampled_from(fit))
            return v if draw(st.booleans()) else (-v) & ((1 << width) - 1)
        return 0
    if k >= 10:
        m = (1 << width) - 1
        j = draw(st.integers(0, 7))
        if j <= 2:
            return hist[draw(st.integers(0, len(hist) - 1))] & m
        if j == 3:
            return (hist[-1] + 1) & m
        if j == 4:
            return (hist[-1] - 1) & m
        if j == 5:
            return (hist[-1] + hist[draw(st.integers(0, len(hist) - 1))]) & m
        if j == 6:
            return (offset if draw(st.booleans()) else offset // 8) & m
        return width & m
    if k == 0:
        return 0
    if k == 1:
        return (1 << width) - 1
    if k == 2:
        return 1 << (width - 1)
    if k == 3 and width > 1:
        return (1 << (width - 1)) - 1  # largest positive
    if k == 4 and width > 1:
        return (1 << (width - 1)) | 1  # sign bit + 1 (two's-complement vs sign-magnitude differ)
    return draw(st.integers(0, (1 << width) - 1))


def draw_mask(draw, width, maxbits=None):
    """bit mask of `width` bits with at most maxbits set; MSB = ID 1"""
    if maxbits is None:
        maxbits = width
    maxbits = min(maxbits, width)
    kind = draw(st.integers(0, 10))
    if maxbits == 0 or kind == 0:
        return 0
    if kind == 10:
        # an unbroken run of IDs from 1 (or up to the last ID): exactly the first k satellites / signals - k being the
        # number a constellation defines (10, 14, 24, 39, 52, 63), a power of two, or anything
        k = min(maxbits, draw(st.one_of(st.sampled_from([10, 14, 24, 32, 39, 52, 63, 64, 8, 16]), st.integers(1, width))))
        run = ((1 << k) - 1) << (width - k)
        return run if draw(st.integers(0, 3)) else (1 << k) - 1
    if kind == 1:  # single bit, edge biased
        b = draw(st.one_of(st.sampled_from([0, width - 1]), st.integers(0, width - 1)))
        return 1 << b
    if kind == 2:  # as dense as allowed
        k = maxbits
    elif kind in (3, 4, 5):
        k = draw(st.integers(1, min(4, maxbits)))
    else:
        k = draw(st.integers(0, maxbits))
    if k == width:
        return (1 << width) - 1
    bits = draw(st.lists(st.integers(0, width - 1), min_size=k, max_size=k, unique=True))
    r = 0
    for b in bits:
        r |= 1 << b
    return r


def draw_count(draw, width, maxfit, profile):
    hi = min((1 << width) - 1, maxfit)
    if hi <= 0:
        return 0
    if profile == "small":
        return draw(st.integers(0, min(3, hi)))
    if profile == "one":
        return min(1, hi)
    if profile == "max":
        return hi
    k = draw(st.integers(0, 9))
    if k <= 4:
        return draw(st.integers(0, min(3, hi)))
    if k == 5:
        return min(hi, draw(st.integers(4, 8)))  # every small count, not only 0..3 (alignment depends on the count)
    if k == 6:
        return hi
    if k == 7:
        return min(hi, draw(st.sampled_from([9, 10, 11, 12])))
    return draw(st.integers(0, hi))


def make_source(draw, ident, profile="mixed", msm_cells=64, fixed=None):
    """source for Walk in encode mode.  fixed: {attr name: raw} overrides."""
    mid, sub = model.ident_numbers(ident)
    fixed = fixed or {}

    def src(key, width, w, idx):
        attr = key + "".join(f"_{i:02d}" for i in idx)
        if attr in fixed:
            return fixed[attr]
        if key == "DF002" and not idx and w.nbits == 0:
            return mid
        if key == "IDF002" and not idx and sub is not None:
            return sub
        if width == 0:
            return 0
        used = w.nbits + width
        if key == "DF394":
            return draw_mask(draw, 64, None if msm_cells is None else 64)
        if key == "DF395":
            nsat = w.vals["NSat"]
            lim = 32 if (nsat == 0 or msm_cells is None) else min(32, msm_cells // nsat)
            if lim and draw(st.booleans()):
                # bias to signal IDs the standard defines for this constellation (pins), so RINEX codes are exercised
                from pv import pins

                ids = sorted(pins.RINEX[pins.CONS[ident[:3]]])
                k = draw(st.integers(1, min(lim, len(ids))))
                chosen = draw(st.lists(st.sampled_from(ids), min_size=k, max_size=k, unique=True))
                r = 0
                for g in chosen:
                    r |= 1 << (32 - g)
                return r
            return draw_mask(draw, 32, lim)
        if key == "DF396":
            k = draw(st.integers(0, 5))
            if k == 0:
                return 0
            if k == 1:
                return (1 << width) - 1
            return draw(st.integers(0, (1 << width) - 1))
        if key == "IDF037":
            # degree and order chosen together so the coefficients fit; order <= degree
            avail = BUDGET - used - w.tail_min + 64  # tail_min already holds IDF038 and the minimum 64 coefficient bits
            pairs = nm_pairs(profile == "anyorder")
            ok = [p for p in pairs if p[2] <= avail]
            if profile in ("small", "one"):
                ok = [p for p in ok if p[0] <= 2] or ok[:1]
            if not ok:
                ok = pairs[:1]
            if profile == "max":
                pair = max(ok, key=lambda p: p[2])
            else:
                k = draw(st.integers(0, 9))
                if k == 0:
                    pair = max(ok, key=lambda p: p[2])
                elif k <= 4:
                    pair = draw(st.sampled_from(ok[: min(len(ok), 6)]))
                else:
                    pair = draw(st.sampled_from(ok))
            w.scratch["m_raw"] = pair[1]
            return pair[0]
        if key == "IDF038" and "m_raw" in w.scratch:
            return w.scratch.pop("m_raw")
        if w.per_iter > 0:
            return draw_count(draw, width, (BUDGET - used - w.tail_min) // w.per_iter, profile)
        if width == 8 and model.tables()["F"][key][0] in ("STR", "CHA"):
            q = w.scratch.setdefault("textq", [])
            if q:
                return q.pop(0)
            if draw(st.integers(0, 9)) == 0:
                # whole sequences: the UTF-8 byte order mark, CR LF, a three-byte character, NUL padding
                q.extend(draw(st.sampled_from([[0xEF, 0xBB, 0xBF], [0x0D, 0x0A], [0xE2, 0x82, 0xAC], [0x00, 0x00], [0x0A, 0x0D]])))
                return q.pop(0)
        if width == 8 and model.tables()["F"][key][0] in ("STR", "CHA") and draw(st.booleans()):
            # text: code units that mean something to text handling (NUL, CR, LF, blank, the UTF-8 byte order mark,
            # lead / continuation bytes, 0xFF), so that runs such as CR LF or EF BB BF turn up in generated text
            return draw(st.sampled_from([0x00, 0x0D, 0x0A, 0x0D, 0x0A, 0x20, 0xEF, 0xBB, 0xBF, 0xC3, 0xA9, 0xFF, 0x41, 0x7F]))
        hist = w.scratch.setdefault("hist", [])
        v = draw_raw(draw, width, hist, w.nbits)
        if len(hist) < 64:
            hist.append(v)
        else:
            hist[(w.nbits // 7) % 64] = v
        return v

    return src


@st.composite
def walks(draw, ident, profile="mixed", msm_cells=64, fixed=None):
    """a Walk in encode mode (not JSON-able; use messages() for cases)"""
    w = Walk(ident, make_source(draw, ident, profile, msm_cells, fixed)).run()
    if w.nbits > BUDGET:
        raise AssertionError(f"generator exceeded the 1023-byte budget for {ident}: {w.nbits} bits")
    return w


@st.composite
def messages(draw, ident, profile="mixed", msm_cells=64, fixed=None, tail=False):
    """{'ident', 'payload' (hex)}: a complete payload for a defined identity"""
    w = draw(walks(ident, profile, msm_cells, fixed))
    pad = draw(st.integers(0, 255)) if w.nbits % 8 else 0
    extra = b""
    if tail:
        room = 1023 - (w.nbits + 7) // 8
        extra = draw(st.binary(min_size=0, max_size=min(3, room)))
    p = w.payload(pad, extra)
    return {"ident": ident, "payload": p.hex()}


def all_idents():
    return model.identities()


_DEC = None


def all_idents_safe():
    """identities whose definition the interpreter can walk (cached)"""
    global _DEC
    if _DEC is None:
        _DEC = decodable_idents()
    return _DEC


def decodable_idents():
    out = []
    for i in all_idents():
        try:
            Walk(i, lambda k, wd, w, idx: 0).run()
            out.append(i)
        except model.BadDefinition:
            pass
    return out


def any_message(profile="mixed", idents=None):
    ids = idents or all_idents_safe()
    return st.sampled_from(ids).flatmap(lambda i: messages(i, profile))


_UNKNOWN = None


def unknown_numbers():
    """message numbers (0..4095) with no definition; 4076 handled by sub-type"""
    global _UNKNOWN
    if _UNKNOWN is None:
        defined = set()
        for i in all_idents():
            n, s = model.ident_numbers(i)
            if s is None:
                defined.add(n)
        _UNKNOWN = [n for n in range(4096) if n not in defined and n != 4076]
    return _UNKNOWN


def unknown_subtypes():
    defined = {model.ident_numbers(i)[1] for i in all_idents() if i.startswith("4076_")}
    return [s for s in range(256) if s not in defined]


LEN_EDGES = [2, 3, 4, 255, 256, 257, 511, 512, 1022, 1023]


@st.composite
def unknown_payloads(draw, size="mixed"):
    """payload of an undefined message type, 2..1023 bytes (3.. for the 4076 family)"""
    if 3376 in unknown_numbers() and size != "big" and draw(st.integers(0, 9)) == 0:
        # message number 3376 = 0xD30: a payload that is itself shaped like a transport frame (preamble, zero reserved
        # bits, matching length), with a right CRC (an encapsulated frame) or arbitrary last bytes
        from pv import framing

        inner = draw(st.one_of(st.binary(min_size=0, max_size=40), any_message("small").map(lambda c: bytes.fromhex(c["payload"])[:1017])))
        f = framing.build_frame(inner)
        if draw(st.booleans()):
            f = f[:-3] + draw(st.binary(min_size=3, max_size=3))
        return f
    if draw(st.integers(0, 7)) == 0:
        sub = draw(st.sampled_from(unknown_subtypes()))
        ver = draw(st.integers(0, 7))
        head = ((4076 << 11) | (ver << 8) | sub) << 1 | draw(st.integers(0, 1))
        hb = head.to_bytes(3, "big")
        minlen = 3
    else:
        n = draw(st.one_of(st.sampled_from(unknown_numbers()), st.sampled_from([0, 1, 999, 1000, 1069, 1070, 1078, 1138, 1229, 1231, 4072, 4075, 4077, 4095])))
        if n not in unknown_numbers():
            n = 4072
        hb = bytes([n >> 4, ((n & 0xF) << 4) | draw(st.integers(0, 15))])
        minlen = 2
    if size == "small":
        ln = draw(st.one_of(st.integers(minlen, 40), st.sampled_from([minlen, minlen, minlen + 1])))
    elif size == "big":
        ln = draw(st.sampled_from([1022, 1023, 1023]))
    else:
        ln = draw(st.one_of(st.integers(minlen, 60), st.sampled_from(LEN_EDGES), st.integers(minlen, 1023)))
        ln = max(ln, minlen)
    body = draw(st.binary(min_size=ln - len(hb), max_size=ln - len(hb)))
    return hb + body


def payloads(tier):
    """payload bytes of undefined types (parse always succeeds); tier 'small' / 'big' / anything = mixed"""
    if tier in ("small", "big"):
        return unknown_payloads(tier)
    return unknown_payloads("mixed")


def valid_payloads(tier, profile="mixed"):
    """payload bytes that parse: model-built messages of every defined identity, or undefined types"""
    return st.one_of(
        any_message(profile).map(lambda c: bytes.fromhex(c["payload"])),
        any_message("small").map(lambda c: bytes.fromhex(c["payload"])),
        unknown_payloads("mixed"),
    )


def hashed_message(ident, seed, fixed=None):
    """payload of a defined identity built WITHOUT Hypothesis draws per field: counters / masks come from `fixed`
    (attribute name -> raw value, default 0), every other field is a hash of (seed, attribute name).  A pure function
    of its arguments, so a case stays a few integers however large the message is (Hypothesis caps the entropy of one
    example at 8 KiB, boundary-sized messages with thousands of fields do not fit)."""
    import hashlib

    fixed = fixed or {}
    mid, sub = model.ident_numbers(ident)

    def src(key, width, w, idx):
        attr = key + "".join(f"_{i:02d}" for i in idx)
        if attr in fixed:
            return fixed[attr] & ((1 << width) - 1) if width else 0
        if key == "DF002" and not idx and w.nbits == 0:
            return mid
        if key == "IDF002" and not idx and sub is not None:
            return sub
        if width == 0:
            return 0
        if w.per_iter > 0 or key in ("DF394", "DF395", "DF396", "IDF035", "IDF037", "IDF038") or key.startswith("DF422_"):
            return 0
        h = hashlib.blake2b(f"{seed}|{attr}".encode(), digest_size=16).digest()
        return int.from_bytes(h, "big") & ((1 << width) - 1)

    w = Walk(ident, src).run()
    if w.nbits > BUDGET:
        raise AssertionError(f"hashed_message: {ident} with {fixed} needs {w.nbits} bits")
    return w.payload(0)
