"""source of MANIFEST.json (bin/mkmanifest)"""

NOTES = (
    "One technique family: property-based testing / fuzzing. Each check is Hypothesis-generated (or, for small finite "
    "sub-spaces, completely enumerated) cases judged by an explicit oracle that shares no code with pyrtcm; failures are "
    "bucketed, shrunk and written as JSON replay files. Exit 2 = harness error (never a verdict)."
)

PBT = "Hypothesis property-based testing against an independent reference model"

CHECKS = [
    {
        "id": "C11",
        "technique": "Hypothesis-generated operation histories (stateful, op-list form) over a scripted socket with a history invariant; reader(socket) vs reader(file) differential",
        "text": "Generated histories of peer sends / timeouts / OS errors / close interleaved with read(n) and readline on SocketWrapper at seven bufsizes; after every step delivered ++ buffered must equal everything recv() handed out, read sizes and readline termination must obey the contract; RTCMReader over a socket with generated segmentation must return what RTCMReader over BytesIO returns. Histories use every OSError subclass as a fault and include 96 KiB .. 2.5 MiB (thorough 9 MiB) streams through one wrapper; the same operations are also driven by a Hypothesis RuleBasedStateMachine. The socket-vs-file differential also runs over chunked (plain / gzip / zlib / deflate) sockets and sockets wrapped by the caller; streams of frames free of sync bytes, cut at the reader's read boundaries with timeouts between segments, must deliver every frame that no stall falls inside, once and in order. The differential also aligns items to the buffer size, lets every receive fill the buffer exactly, and repeats items hundreds of times inside one compressed chunk. A third of the wrapper histories never inspect the wrapper's buffer (prefix invariant per step, equality after close and drain); a second reader may take over the first one's datastream.",
        "note": "Scripted sockets stand for the kernel; real socket options are represented only by TimeoutError / OSError from recv().",
    },
    {
        "id": "C12",
        "technique": "exhaustive enumeration of recv partitions for short chunked bodies + Hypothesis-generated bodies / partitions / bufsizes / compression parameters + atheris coverage-guided campaign, all judged by an independent RFC 9112 chunk decoder",
        "text": "Generated well-formed chunked bodies (plain, gzip, zlib, raw deflate per chunk) are delivered through every composition of the encoded stream for n <= 15, every 1- and 2-cut partition for n <= 120 and generated partitions beyond; the bytes drained from SocketWrapper.read must equal the reference decoding of the unsegmented stream and read must not raise. Around one chunk whose body is not a valid compressed stream, the decoded bodies of the well-formed chunks before and after it must still be delivered. Decoded chunk sizes around buffer-size multiples are enumerated for each coding with highly repetitive bodies; gzip members carry optional header fields.",
        "note": "Chunk extensions / trailers are not generated.",
    },
    {
        "id": "C13",
        "technique": "Hypothesis-generated parse histories (op lists) with deep table digests + generated deterministic thread schedules (harness-owned line-level scheduler) + free-running thread stress",
        "text": "Generated histories of valid / failing / mixed-type parses through four entry points and a long-lived reader (compared with a fresh reader over the same frame: junk before frames, wrong trailers with validation off, polling after the stream ran dry): each result must equal the independent interpreter's expectation and the first parse of the same bytes, and the definition / lookup tables must keep their import-time digest after every step; 2-4 parse jobs are interleaved at source-line granularity following a generated choice list and must give the sequential results; an 8-thread free-running stress with a 1 microsecond switch interval backs this up. Also: fresh child interpreters in which six threads parse and checksum at once before anything else was parsed (lazy initialisation), sibling re-numberings (same masks under another constellation), immediate repeats of failing frames on a long-lived reader, and a hash-built workload with thousands of distinct group-index tuples in the thread stress. The long-lived reader is driven through read(), next(), next(iter(reader)), a kept iterator and for loops left early, with parsing on or off. A second long-lived reader in raise mode is fed a frame cut short, then the complete frame, which must come back as from a fresh reader.",
        "note": "Interleavings finer than a source line and GIL-free parallelism are not explored.",
    },
    {
        "id": "C10",
        "technique": "complete structural sweep of the definition tables + PBT with pinned standard length formulas (black-box bit-exact length probe) + metamorphic sibling relations on generated block bits",
        "text": "Every identity of the three tables and of a pinned roster is walked by the independent interpreter and decoded by the parser (complete); for generated repeat counts the bits consumed are compared bit-exactly with pinned RTCM 10403.3 / IGS SSR v1 formulas; sibling families (orbit+clock vs combined for GPS, GLONASS and six IGS constellations, combined network-RTK differences 1017 / 1039, parallel GPS / GLONASS / IGS SSR, residual and FKP messages, extended vs basic observables, MSM per level across seven constellations, IGS sub-types across constellations) must decode identical bits to identical values and names.",
        "note": "Length and width pins are the harness's transcription of the standards (three-way cross-checked), not the PDFs.",
    },
    {
        "id": "C19",
        "technique": PBT + " (the interpreter knows the originating field key and index tuple of every generated name) + complete static sweep of the definitions",
        "text": "datadesc / att2idx / att2name are evaluated on every attribute name of generated messages of every identity (two- and three-digit indices, two nesting levels) and on every field key of every definition with synthetic 1/2/3-digit indices at its nesting depth; expected results come from the interpreter's knowledge of key and indices. The names and the helpers' answers are also produced in a python -O child interpreter.",
        "note": "Nothing is asserted about att2idx / att2name on un-indexed names.",
    },
    {
        "id": "C09",
        "technique": PBT + " (reference mask decoder on pinned bit offsets with pinned PRN numbering and RINEX code tables) + complete single-bit mask enumeration",
        "text": "All 49 MSM types x generated satellite / signal / cell masks x both label options, plus every single-bit satellite x signal mask pair per constellation; counts, PRN labels, satellite-major cell mapping, RINEX codes and the N/A marker are judged by a reference decoder that reads the masks at pinned bit offsets and uses tables written out in the harness.",
        "note": "Pins are the harness's transcription of RTCM 10403.3 (cross-checked with RTKLIB); band labels are checked for consistency only.",
    },
    {
        "id": "C16",
        "technique": PBT + " metamorphic relation between label options across three entry points",
        "text": "Generated MSM payloads of all 49 types parsed under label options 1, 2, 0 and True through RTCMMessage, the static parser and a stream reader: only CELLSIG_* may differ, True == 1, each signal ID keeps the label of a single-signal probe message; generated non-MSM messages of every identity are identical under all options. One reader per option value is constructed before any is read (options must be bound to the instance), with validation on and off; the two options are also parsed concurrently in threads. The same frame as bytearray / memoryview, or followed by further bytes with validation off: if a message of the same identity comes back, its labels follow the option given.",
        "note": "What option value 0 selects is not documented; only 'CELLSIG_* at most' is required of it.",
    },
    {
        "id": "C18",
        "technique": PBT + " (helper output vs getattr on the message and vs the independent interpreter) + complete sweep of reserved MSM numbers",
        "text": "parse_msm on generated MSM messages of all 49 types must agree entry by entry with the flat attributes and the interpreter's values, with the pinned epoch field; parse_4076_201 on generated 4076_201 messages (1-4 layers, up to 153 coefficients) must return exactly the decoded cosine / sine lists; on every other identity and every number in 1070..1229 without a definition both helpers must return None without raising. Both label options are converted for the same payload and another message in between, and every earlier result is checked again afterwards. Sub-type 201 bits under every other message number (complete) must leave the coefficient helper returning nothing.",
        "note": "Constellation name strings are not pinned.",
    },
    {
        "id": "C01",
        "technique": PBT + " (recording / fault-injecting stream double + independent frame validator) + atheris coverage-guided fuzzing with the same oracle inside the target",
        "text": "Generated adversarial streams (valid, bit-damaged, truncated and decoy frames, frames nested in UBX/NMEA/other frames, sync-dense noise) crossed with generated scripts of short and empty reads and all error modes; every delivered pair must be a well-formed frame by the harness's own validator, a contiguous in-order non-overlapping slice of the bytes handed out, with matching payload and message number. Sampled search. Streams also go through a scripted socket with timeouts / OS errors between segments; items include CRC-twin frames (same trailer, different payload), zero-body-CRC and jumbo (reserved bits as length) decoys and frames with look-alike trailers; deliveries are judged after the whole stream has been read. Stream kinds also include a plain seekable file and chunked (plain / gzip / zlib / deflate per chunk) sockets; after the stream has run dry the same reader is iterated twice more and whatever that delivers is judged the same way. Further decoys: text inside a frame at the reader's read boundaries with receive boundaries around it, a UBX extent that splits a frame behind an NMEA header; items aligned to the receive-buffer size; stutters (a rejected item repeated, a good frame, a rejected item); caster response headers.",
        "note": "Trusts the harness's CRC / frame validator; which frames are delivered is left to C02/C05.",
    },
    {
        "id": "C04",
        "technique": PBT + " / totality oracle (exception whitelist + deterministic stream-call bound) + atheris coverage-guided fuzzing (empty and seeded corpora); enumeration of all 4096 numbers x short lengths",
        "text": "Arbitrary and structure-mutated payloads, buffers and streams under every validate / quitonerror combination; the only admissible outcomes are an object, StopIteration or a pyrtcm exception class, the iterator raises nothing in ignore/log modes, and the number of stream calls is bounded (termination). Streams are scripted doubles, files, non-seekable readers, plain and chunked / compressed sockets (also sockets that die, damaged compressed chunks, odd chunk-size lines). Sampled except for the enumerated short-payload space, the long error runs and the largest UBX read requests. Socket streams may start with a caster's response header (complete, malformed, cut off); rejected items are repeated around good frames.",
        "note": "Termination is decided as a bound on stream calls and, for loops that never touch the stream, as a deterministic count of library line events relative to the declared input size - never CPU time.",
    },
    {
        "id": "C05",
        "technique": PBT + " (list model of the stream: undamaged frames, handler / log-record / exception counts)",
        "text": "Generated streams of valid frames with generated subsets damaged by guaranteed-detectable patterns at generated positions, under ignore / log+handler / log without handler / raise; the reader must return exactly the undamaged frames in order, report once per damaged frame in log mode, never in ignore mode, and in raise mode raise at each damaged frame in event order while the same reader keeps working. Also enumerated completely: every message number in a 2-byte-payload frame x every single-bit damage position; long runs (1200 / 10000) of consecutive damaged frames; re-broadcast frames damaged twice; handler objects of several kinds (incl. falsy callables). Handlers include callable objects with logger- / file-like attributes and functools.partial. Damaged frames are also read from non-seekable buffered streams (pipes).",
        "note": "Damage is confirmed detectable by the harness's CRC reference before use.",
    },
    {
        "id": "C06",
        "technique": PBT + " with exhaustive enumeration of every whole-byte truncation per generated message; accept/reject differential against the independent interpreter (also as an atheris coverage-guided campaign); truncation through the reader with validation off; python -O child",
        "text": "For every defined identity, model-built complete payloads are truncated at every byte length down to the identity header and each truncation must be rejected; arbitrary and mutated payloads are accepted iff the independent interpreter (explicit bounds test) does not overrun, with equal values when both accept.",
        "note": "Complete over cut points per message and over identities; messages themselves are sampled.",
    },
    {
        "id": "C07",
        "technique": PBT + " round trips against an independent frame builder",
        "text": "Generated payloads of every defined identity and of unknown numbers at all length classes (2..1023, boundary-biased): serialize() equals the harness's canonical frame, parse/serialize are mutual inverses through the static parser and the stream reader, eval(repr(m)) rebuilds the payload.",
        "note": "Trusts the harness's frame builder and CRC.",
    },
    {
        "id": "C14",
        "technique": PBT + " over assignment sequences with full before/after snapshots",
        "text": "Generated messages of every kind x generated sequences of setattr on public, derived, private, property and fresh names with values of several types; each must raise RTCMMessageError and payload, identity, attributes, str, repr, serialize() and the private dict must be unchanged. Messages come from every entry point (constructor, static parser, file and socket readers, copy, deepcopy, pickle); augmented assignment is tried as well; failing and succeeding constructions of other messages are interleaved with the attempts. Every byte-truncation and extension of generated payloads of every identity is also handed to the constructor: whatever object comes back must refuse assignment and stay unchanged.",
        "note": "del / __dict__ pokes / object.__setattr__ are outside the statement.",
    },
    {
        "id": "C15",
        "technique": "complete enumeration of the 4096 x 256 header space (generated tails) against an arithmetic reference, plus PBT over full payloads of implemented identities",
        "text": "All 4096 message numbers x all 256 sub-type byte values are constructed on every run (about 1.05 M constructor calls in the quick tier, more tails and versions in thorough); identity, DF002, stub preservation, canonical serialisation and the MSM predicate are judged against an arithmetic reference and a pinned MSM roster. Also: fresh child interpreters where several threads construct messages of implemented identities at once (lazily built dispatch). Every sub-type of 4076 is built with every payload length from 3 to 14 bytes.",
        "note": "Exhaustive over headers; tails are deterministic samples.",
    },
    {
        "id": "C17",
        "technique": PBT + " differential between reader configurations over a recording stream double",
        "text": "Generated streams of valid, wrong-CRC and foreign items read under validate x parsed x labelmsm x quitonerror; validate=0 must return every frame decoded as with the right CRC, parsed=False the same raw frames with no objects, and byte accounting per frame must be identical in every configuration. Readers for all configurations are optionally constructed up-front; streams are a recording double or a genuine io.BufferedReader with a generated buffer size; DEBUG logging is a generated option. validate=0 with parsed=False must still hand out the wrong-CRC frames; frames with 0- or 1-byte payloads must fare the same with validate=0 (right or wrong trailer) as with their right trailer under validate=1, for the static parser and behind a reader.",
        "note": "No read faults injected here.",
    },
    {
        "id": "C02",
        "technique": PBT + " (generator's own list of emitted frames as oracle; BytesIO / BufferedReader / scripted-socket streams)",
        "text": "Generated well-formed sequences of frames of every defined and unknown type (incl. 0/1-byte filler and 1023-byte frames), NMEA, UBX and inert noise, iterated through RTCMReader over three stream kinds with generated segmentation; the returned raw frames must contain every number-carrying frame exactly once, in order, byte for byte, and iteration must stop cleanly. Sampled search; no absence claim. Items are also placed at chosen distances (-3..3) from multiples of the buffer size (512 / 4096 / 8192, files and sockets; complete), and UBX length fields around every multiple of 4096 and power of two are enumerated. Streams may be pipes, or files handed over positioned in the middle.",
        "note": "Trusts the harness's frame builder / CRC reference and the pinned NMEA talker list; filler frames may or may not be returned themselves.",
    },
    {
        "id": "C03",
        "technique": PBT + " (independent interpreter of the definition tables) + two metamorphic relations",
        "text": "Every defined identity is exercised on every run: payloads are laid out by an independent definition interpreter from generated raw field values (extremes biased, counters up to 1023 bytes) and the parser's public attributes must equal the interpreter's names, order and values; plus one-field-change and trailing-bytes metamorphic relations. Sampled over values; complete over identities. Also: the same decode through one stream reader fed CRC-twin frames, in a python -O child interpreter, with every counter at its 1023-byte maximum for every identity, and for semantically consistent Unicode 1029 texts.",
        "note": "The interpreter reads the repository's data-field and payload tables as data (their conformance to the standards is C10); shares no code with rtcmmessage.py.",
    },
    {
        "id": "C08",
        "technique": PBT + " (two independent CRC-24Q references); exhaustive single-bit / burst-start sweeps per generated frame",
        "text": "Generated byte strings 0..1029 compared with two independent CRC-24Q implementations; generated valid frames x guaranteed-detectable damage patterns must raise RTCMParseError (all single-bit positions and all burst starts enumerated per frame); validate=0 differential. Sampled over frames, so no absence claim. Frames include nested-prefix, encapsulating (prefix and suffix are codewords), zero-CRC and chosen-trailer frames; a validate=0 parse followed by a validating parse of the same damaged bytes; first use of the CRC helper by several threads at once in fresh interpreters. Frames whose trailer is chosen to equal what a header-led validator would compute (prefix of the damaged length, syndrome of the flip) are damaged in the header bits; frame-shaped non-codewords are inputs of the helpers.",
        "note": "Trusts the harness's CRC references (checked against the catalogue value 0xCDE703) and Hypothesis' generators.",
    },
]

_PENDING = ["C01", "C02", "C03", "C04", "C05", "C06", "C07", "C09", "C10", "C11", "C12", "C13", "C14", "C15", "C16", "C17", "C18", "C19"]
_done = {c["id"] for c in CHECKS}
NOT_APPLICABLE = [{"property_id": p, "reason": "check under construction in this session (planned in DESIGN.md section 3); not yet claimed"} for p in _PENDING if p not in _done]
