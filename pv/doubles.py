"""M3 - stream and socket doubles (recording, fault-injecting, budgeted)."""

import socket

from pv.core import Fail


def _note(n):
    from pv import core

    core.note_input(n)


class HardStop(BaseException):
    """raised when the code under test keeps calling the stream far beyond the call budget
    (BaseException so that a broad `except Exception` in mutated code cannot swallow it)"""


class ScriptedStream:
    """read(n)/readline() over `data` following a script of per-call actions.

    script[i] is the action of the i-th call:  None -> full read;  k >= 0 -> return at most k bytes
    (k == 0: an injected empty read; nothing is consumed).  After the script: full reads.
    Every call is logged as (kind, offset, requested, returned).  A deterministic call budget
    replaces a wall-clock watchdog: a correct reader consumes >= 1 byte per call or sees an
    empty read, so it can never need more than len(data) + len(script) + slack calls.
    """

    def __init__(self, data: bytes, script=(), slack=16):
        self.data = data
        self.script = list(script)
        self.pos = 0
        _note(len(data) + 16 * len(self.script) + 16)
        self.calls = 0
        self.log = []
        self.budget = len(data) + len(self.script) + slack
        self.faults = 0  # non-full actions actually applied
        self.overrun = False

    def _tick(self):
        self.calls += 1
        if self.calls > self.budget:
            self.overrun = True
            if self.calls > 2 * self.budget + 64:
                raise HardStop()
            raise Fail("non-termination", f"stream called {self.calls} times for {len(self.data)} bytes and {len(self.script)} scripted faults")

    def _action(self):
        i = self.calls - 1
        return self.script[i] if i < len(self.script) else None

    def read(self, n=-1):
        self._tick()
        if n is None or n < 0:
            n = len(self.data) - self.pos
        act = self._action()
        avail = len(self.data) - self.pos
        k = min(n, avail)
        if act is not None and act < k:
            k = act
            self.faults += 1
        out = self.data[self.pos : self.pos + k]
        self.log.append(("read", self.pos, n, k))
        self.pos += k
        return out

    def readline(self, limit=-1):
        self._tick()
        act = self._action()
        end = self.data.find(b"\n", self.pos)
        end = len(self.data) if end < 0 else end + 1
        k = end - self.pos
        if act is not None and act < k:
            k = act
            self.faults += 1
        out = self.data[self.pos : self.pos + k]
        self.log.append(("readline", self.pos, -1, k))
        self.pos += k
        return out

    @property
    def exhausted(self):
        return self.pos >= len(self.data)


class ScriptedSocket(socket.socket):
    """socket whose recv() follows a queue of events:
    bytes -> handed out in order, never more than the requested count per call;
    'timeout' -> TimeoutError;  'oserror' -> OSError;  'close' / empty queue -> b"" (peer closed);  'dead' -> ConnectionResetError now and on every later call.
    Subclasses socket.socket (like the repository's DummySocket) so RTCMReader wraps it."""

    def __init__(self, events=()):
        super().__init__(socket.AF_INET, socket.SOCK_STREAM)
        self.events = list(events)
        self.handed = bytearray()  # everything recv() has returned so far
        _note(sum(len(e) if isinstance(e, (bytes, bytearray)) else 16 for e in self.events) + 16)
        self.log = []  # (requested, outcome)
        self.closed_by_peer = False
        self.calls = 0
        self.budget = None
        self.empty_means = "eof"  # what an empty queue looks like: "eof" (b"") or "timeout" (TimeoutError)

    def push(self, ev):
        self.events.append(ev)
        _note(len(ev) if isinstance(ev, (bytes, bytearray)) else 16)

    def recv(self, n, flags=0):  # pylint: disable=arguments-differ
        self.calls += 1
        if self.budget is not None and self.calls > self.budget:
            if self.calls > 2 * self.budget + 64:
                raise HardStop()
            raise Fail("non-termination", f"recv called {self.calls} times")
        while self.events and isinstance(self.events[0], (bytes, bytearray)) and len(self.events[0]) == 0:
            self.events.pop(0)
        if not self.closed_by_peer and not self.events and self.empty_means == "timeout":
            self.log.append((n, "timeout"))
            raise TimeoutError("scripted timeout (nothing queued)")
        if getattr(self, "dead", False):
            self.log.append((n, "oserror"))
            raise ConnectionResetError(104, "scripted ConnectionResetError (connection is gone)")
        if self.closed_by_peer or not self.events:
            self.log.append((n, "eof"))
            return b""
        ev = self.events[0]
        if ev == "close":
            self.closed_by_peer = True
            self.log.append((n, "eof"))
            return b""
        if ev == "dead":
            # a connection that broke: this and every later recv() fails (reset by peer); for the caller it is over
            self.closed_by_peer = True
            self.dead = True
            self.log.append((n, "oserror"))
            raise ConnectionResetError(104, "scripted ConnectionResetError (connection is gone)")
        if ev == "timeout":
            self.events.pop(0)
            self.log.append((n, "timeout"))
            raise TimeoutError("scripted timeout")
        if isinstance(ev, str) and ev.startswith("oserror"):
            # "oserror" or "oserror:<subclass>": any OSError subclass is a legitimate failure of recv()
            self.events.pop(0)
            self.log.append((n, "oserror"))
            kind = ev.partition(":")[2]
            exc = {
                "connreset": ConnectionResetError,
                "connaborted": ConnectionAbortedError,
                "brokenpipe": BrokenPipeError,
                "blocking": BlockingIOError,
                "interrupted": InterruptedError,
                "connrefused": ConnectionRefusedError,
            }.get(kind, OSError)
            raise exc(104, f"scripted {exc.__name__}")
        out = bytes(ev[:n])
        rest = ev[n:]
        if rest:
            self.events[0] = rest
        else:
            self.events.pop(0)
        self.handed += out
        self.log.append((n, len(out)))
        return out

    def send(self, data, flags=0):  # pylint: disable=arguments-differ
        """full-duplex use: what the application writes is recorded, nothing else happens"""
        self.sent = getattr(self, "sent", b"") + bytes(data)
        return len(data)

    def pending_bytes(self):
        return b"".join(e for e in self.events if isinstance(e, (bytes, bytearray)))


import io  # noqa: E402


class BudgetBytesIO(io.BytesIO):
    """a plain in-memory file that counts calls: more than len(data) + slack read calls can only mean a loop
    that makes no progress (deterministic stand-in for a wall-clock watchdog)"""

    def __init__(self, data, slack=64):
        super().__init__(data)
        _note(len(data) + 16)
        self._calls = 0
        self._budget = len(data) + slack

    def _tick(self):
        self._calls += 1
        if self._calls > self._budget:
            if self._calls > 2 * self._budget + 64:
                raise HardStop()
            raise Fail("non-termination", f"file stream read {self._calls} times for {self._budget - 64} bytes")

    def read(self, *a):
        self._tick()
        return super().read(*a)

    def readline(self, *a):
        self._tick()
        return super().readline(*a)


def pipe_like(data, chunk=64):
    """what os.fdopen(pipe), sys.stdin.buffer, Popen.stdout or socket.makefile("rb") give: an io.BufferedReader over a
    raw stream that cannot seek - it HAS seek() and tell() attributes, and both raise"""
    import io

    class _Raw(io.RawIOBase):
        def __init__(self, d):
            super().__init__()
            self.d, self.p, self.calls = d, 0, 0

        def readable(self):
            return True

        def seekable(self):
            return False

        def readinto(self, b):
            self.calls += 1
            if self.calls > 4 * len(self.d) + 256:
                raise Fail("non-termination", f"raw stream read {self.calls} times for {len(self.d)} bytes")
            n = min(len(b), len(self.d) - self.p)
            b[:n] = self.d[self.p : self.p + n]
            self.p += n
            return n

    _note(len(data) + 16)
    return io.BufferedReader(_Raw(data), buffer_size=chunk or 64)
