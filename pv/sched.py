"""M6 - deterministic thread scheduler: interleavings as a generated, replayable value.

Worker threads install a sys.settrace line tracer restricted to the pyrtcm sources; at every
line event the worker hands control back to the scheduler and blocks on its own semaphore.
The scheduler releases exactly one worker at a time, chosen by the (Hypothesis-drawn) choice
list of [thread, run-length] pairs, cycled when exhausted.
"""

import os
import sys
import threading

from pv.core import REPO_SRC, HarnessError

_LIB = os.path.join(REPO_SRC, "pyrtcm") + os.sep
WAIT = 60.0


class Scheduler:
    def __init__(self, jobs, choices):
        self.jobs = jobs
        self.choices = [(int(a), max(1, int(b))) for a, b in choices] or [(0, 1)]
        n = len(jobs)
        self.sems = [threading.Semaphore(0) for _ in range(n)]
        self.back = threading.Semaphore(0)
        self.done = [False] * n
        self.res = [None] * n
        self.steps = 0
        self.switches = 0
        self.where = {}  # function name -> number of switches that happened inside it

    def _tracer(self, i):
        def local(frame, event, arg):
            if event == "line":
                self.cur_func = frame.f_code.co_name
                self.back.release()
                if not self.sems[i].acquire(timeout=WAIT):
                    raise HarnessError("scheduler: worker starved")
            return local

        def glob(frame, event, arg):
            if frame.f_code.co_filename.startswith(_LIB):
                return local
            return None

        return glob

    def _worker(self, i):
        self.sems[i].acquire()
        sys.settrace(self._tracer(i))
        try:
            self.res[i] = ("ok", self.jobs[i]())
        except BaseException as e:  # pylint: disable=broad-except
            sys.settrace(None)
            self.res[i] = ("exc", e)
        finally:
            sys.settrace(None)
            self.done[i] = True
            self.back.release()

    def run(self):
        ts = [threading.Thread(target=self._worker, args=(i,), daemon=True) for i in range(len(self.jobs))]
        for t in ts:
            t.start()
        k = 0
        last = None
        self.cur_func = None
        while not all(self.done):
            live = [i for i, d in enumerate(self.done) if not d]
            tid, run = self.choices[k % len(self.choices)]
            k += 1
            i = live[tid % len(live)]
            if last is not None and last != i and not self.done[last]:
                self.switches += 1
                if self.cur_func:
                    self.where[self.cur_func] = self.where.get(self.cur_func, 0) + 1
            last = i
            for _ in range(run):
                if self.done[i]:
                    break
                self.sems[i].release()
                if not self.back.acquire(timeout=WAIT):
                    raise HarnessError("scheduler: worker did not come back")
                self.steps += 1
        for t in ts:
            t.join(WAIT)
        return self.res
