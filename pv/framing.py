"""M2 - RTCM3 framing reference, written from the transport definition
(preamble 0xD3, six zero bits, 10-bit length, payload, CRC-24Q) and sharing no
code with pyrtcm.

Two independent CRC-24Q implementations:
  crc_div   : GF(2) long division of data(x) * x^24 by the generator on Python ints
  crc_table : 256-entry MSB-first table generated from the polynomial
Both are self-checked at import against the catalogue check value
CRC-24/LTE-A("123456789") = 0xCDE703 (same polynomial, init 0, no reflection,
no final xor = CRC-24Q).
"""

POLY = 0x1864CFB  # x^24 + x^23 + x^18 + x^17 + x^14 + x^11 + x^10 + x^7 + x^6 + x^5 + x^4 + x^3 + x + 1
MAXPAY = 1023


def crc_div(data: bytes) -> int:
    """remainder of data(x) * x^24 modulo POLY, by shift-and-subtract on one big int"""
    if not data:
        return 0
    n = int.from_bytes(data, "big") << 24
    top = n.bit_length()
    while top > 24:
        n ^= POLY << (top - 25)
        top = n.bit_length()
    return n


def _mk_table():
    tbl = []
    for b in range(256):
        r = b << 16
        for _ in range(8):
            r = ((r << 1) ^ POLY) if r & 0x800000 else (r << 1)
        tbl.append(r & 0xFFFFFF)
    return tbl


_TABLE = _mk_table()


def crc_table(data: bytes) -> int:
    r = 0
    for b in data:
        r = ((r << 8) & 0xFFFFFF) ^ _TABLE[(r >> 16) ^ b]
    return r


def build_frame(payload: bytes) -> bytes:
    """canonical frame around payload (0..1023 bytes)"""
    n = len(payload)
    assert 0 <= n <= MAXPAY
    body = bytes([0xD3, n >> 8, n & 0xFF]) + payload
    c = crc_table(body)
    return body + bytes([c >> 16, (c >> 8) & 0xFF, c & 0xFF])


def frame_problem(raw: bytes):
    """None if raw is a well-formed RTCM3 frame, else a string naming the first defect"""
    if len(raw) < 6:
        return "shorter than 6 bytes"
    if raw[0] != 0xD3:
        return "preamble is not 0xD3"
    if raw[1] & 0xFC:
        return "reserved six bits not zero"
    size = ((raw[1] & 0x03) << 8) | raw[2]
    if size != len(raw) - 6:
        return f"length field {size} != enclosed payload size {len(raw) - 6}"
    if crc_div(raw) != 0:
        return "CRC-24Q trailer wrong"
    return None


def msgnum(payload: bytes):
    """12-bit message number carried by a payload, or None if shorter than 12 bits"""
    if len(payload) < 2:
        return None
    return (payload[0] << 4) | (payload[1] >> 4)


def ref_identity(payload: bytes):
    """arithmetic reference for the identity string, None if the header is incomplete"""
    n = msgnum(payload)
    if n is None:
        return None
    if n == 4076:
        if len(payload) < 3:
            return None
        bits = int.from_bytes(payload[:3], "big")
        sub = (bits >> 1) & 0xFF  # bits 15..22 of the payload
        return f"4076_{sub:03d}"
    return str(n)


def flip_bits(raw: bytes, positions) -> bytes:
    """flip the given bit positions (0 = MSB of byte 0)"""
    b = bytearray(raw)
    for p in positions:
        b[p >> 3] ^= 0x80 >> (p & 7)
    return bytes(b)


# ---- frames with a chosen CRC trailer --------------------------------------------------------------------------
# crc(M || X) for three bytes X equals crc3(crc(M) ^ X) where crc3(v) = v * x^24 mod G is linear in the 24 bits of v.
_INV = None


def _crc3(v):
    return crc_table(v.to_bytes(3, "big"))


def _inverse_crc3():
    """matrix inverse of crc3 over GF(2), as a list mapping each target basis bit to the pre-image"""
    global _INV
    if _INV is None:
        # Gaussian elimination on the 24x24 system: columns = images of the basis vectors
        rows = [(_crc3(1 << k), 1 << k) for k in range(24)]  # (image, pre-image)
        basis = {}
        for img, pre in rows:
            while img:
                hb = img.bit_length() - 1
                if hb not in basis:
                    basis[hb] = (img, pre)
                    break
                bi, bp = basis[hb]
                img ^= bi
                pre ^= bp
        _INV = basis
    return _INV


def preimage_crc3(target):
    """v with crc3(v) == target"""
    basis = _inverse_crc3()
    v = 0
    t = target
    while t:
        hb = t.bit_length() - 1
        bi, bp = basis[hb]
        t ^= bi
        v ^= bp
    return v


def frame_with_trailer(payload_prefix: bytes, trailer: bytes) -> bytes:
    """a VALID frame whose payload is payload_prefix + 3 computed bytes and whose CRC trailer equals `trailer`"""
    n = len(payload_prefix) + 3
    assert n <= MAXPAY and len(trailer) == 3
    head = bytes([0xD3, n >> 8, n & 0xFF]) + payload_prefix
    x = crc_table(head) ^ preimage_crc3(int.from_bytes(trailer, "big"))
    f = head + x.to_bytes(3, "big") + trailer
    assert frame_problem(f) is None
    return f


def payload_hitting_register(prefix: bytes, tail: bytes, target: int, b: int) -> bytes:
    """payload prefix + 3 computed bytes + b + tail such that, framed, the CRC register right after `b` has been XOR-ed
    in (before its eight shift rounds) equals `target`"""
    n = len(prefix) + 4 + len(tail)
    assert n <= MAXPAY
    head = bytes([0xD3, n >> 8, n & 0xFF]) + prefix
    reg = target ^ (b << 16)
    x = crc_table(head) ^ preimage_crc3(reg)
    assert crc_table(head + x.to_bytes(3, "big")) == reg
    return prefix + x.to_bytes(3, "big") + bytes([b]) + tail


def selfcheck():
    chk = b"123456789"
    assert crc_div(chk) == 0xCDE703, hex(crc_div(chk))
    assert crc_table(chk) == 0xCDE703, hex(crc_table(chk))
    for d in (b"", b"\x00", b"\x00" * 7, b"\xff" * 5, bytes(range(256))):
        assert crc_div(d) == crc_table(d)
    f = build_frame(b"\x3e\xd0\x00")
    assert frame_problem(f) is None
    for tr in (b"\x00\x00\x00", b"\xe8\r\n", b"\xff\xff\xff", b"\xd3\x00\x13"):
        g = frame_with_trailer(b"\xfe\x80\x01", tr)
        assert g[-3:] == tr and crc_div(g) == 0
    assert frame_problem(flip_bits(f, [30])) is not None


selfcheck()
