"""bin/check entry point: python -m pv.runner <ID> [--tier quick|thorough] [--replay FILE]

exit 0  property held on everything explored (KNOWN-FINDING lines possible)
exit 1  at least one 'VIOLATION property=<id> replay=<path>' line
exit 2  harness error (never a verdict about the repository)
"""

import argparse
import glob
import importlib
import json
import multiprocessing
import os
import re
import sys
import time
import traceback
from collections import Counter

from pv import core
from pv.core import ROOT, HarnessError, ShardResult, log

NPROC = int(os.environ.get("PV_JOBS", "16"))


def load(prop):
    mod = importlib.import_module(f"pv.checks.{prop.lower()}")
    return mod


def check_import_origin():
    import pyrtcm

    origin = os.path.realpath(os.path.dirname(pyrtcm.__file__))
    want = os.path.realpath(os.path.join(core.REPO_SRC, "pyrtcm"))
    if origin != want:
        raise HarnessError(f"pyrtcm imported from {origin}, expected {want}")


# ---------------------------------------------------------------- known findings
def known_findings(prop):
    """lines of known_findings.txt:
    open: property=<id> match=<regex> <what fails>
    fixed: property=<id> <commit> <what failed>
    """
    out = []
    path = os.path.join(ROOT, "known_findings.txt")
    if not os.path.exists(path):
        return out
    with open(path, encoding="utf-8") as f:
        for line in f:
            line = line.strip()
            m = re.match(r"open: property=(\S+) match=(\S+) (.*)$", line)
            if m and m.group(1) == prop:
                out.append({"regex": re.compile(m.group(2)), "what": m.group(3)})
    return out


def match_known(known, bucket, case):
    blob = bucket + " " + json.dumps(case, sort_keys=True, default=str)
    for k in known:
        if k["regex"].search(blob):
            return k
    return None


# ---------------------------------------------------------------- worker
def worker(args):
    prop, subname, tier, seed, shard, nshards, scale, shrink_budget = args
    try:
        mod = load(prop)
        sub = next(s for s in mod.SUBS if s.name == subname)
        try:
            res = core.run_shard(sub, tier, seed, shard, nshards, scale)
        except Exception as e:  # pylint: disable=broad-except
            from pv.model import BadDefinition

            if not isinstance(e, BadDefinition):
                raise
            res = ShardResult()
            core.evaluate(sub, {"__checkdefs__": True}, res)
            if not res.failures:
                raise
        # shrink every bucket found by this shard
        for bucket, ent in res.failures.items():
            t0 = time.monotonic()
            if ent.get("no_shrink"):
                continue  # step-budget verdicts: every shrink attempt would cost minutes
            ent["case"] = core.shrink_case(sub, tier, seed, shard, nshards, bucket, ent["case"], ent.get("label"), shrink_budget, scale)
            tmp = ShardResult()
            core.evaluate(sub, ent["case"], tmp)
            if bucket in tmp.failures:
                ent["msg"] = tmp.failures[bucket]["msg"]
            ent["shrink_s"] = round(time.monotonic() - t0, 2)
        return {
            "sub": subname,
            "shard": shard,
            "evals": res.evals,
            "cases": res.cases,
            "nontrivial": res.nontrivial,
            "case_counts": res.case_counts,
            "classes": dict(res.classes),
            "samples": res.samples,
            "failures": res.failures,
            "wall": res.wall,
            "error": None,
        }
    except BaseException as e:  # pylint: disable=broad-except
        return {"sub": subname, "shard": shard, "error": "".join(traceback.format_exception(type(e), e, e.__traceback__))}


def _die_with_parent():
    """a killed runner (timeout of a calling tool) must not leave workers behind"""
    try:
        import ctypes
        import signal

        ctypes.CDLL("libc.so.6", use_errno=True).prctl(1, signal.SIGKILL)  # PR_SET_PDEATHSIG
    except Exception:  # pylint: disable=broad-except
        pass
    try:
        # developer aid: `kill -USR1 <worker pid>` prints the worker's Python stack to stderr
        import faulthandler
        import signal

        faulthandler.register(signal.SIGUSR1, all_threads=True)
    except Exception:  # pylint: disable=broad-except
        pass


def replay_file(mod, path):
    with open(path, encoding="utf-8") as f:
        rep = json.load(f)
    sub = next((s for s in mod.SUBS if s.name == rep["subcheck"]), None)
    if sub is None:
        raise HarnessError(f"{path}: unknown subcheck {rep['subcheck']}")
    tmp = ShardResult()
    bucket = core.evaluate(sub, rep["case"], tmp)
    if bucket is None:
        return None, None
    return bucket, tmp.failures[bucket]["msg"]


def main(argv=None):
    ap = argparse.ArgumentParser()
    ap.add_argument("prop")
    ap.add_argument("--tier", default=os.environ.get("VERIF_TIER") or "quick", choices=["quick", "thorough"])
    ap.add_argument("--replay")
    ap.add_argument("--scale", type=float, default=float(os.environ.get("PV_SCALE", "1")))
    ap.add_argument("--only", help="comma-separated sub-check names (developer use; evidence marks the run partial)")
    a = ap.parse_args(argv)
    prop = a.prop.upper()
    try:
        seed = int(os.environ.get("VERIF_SEED", "1") or "1")
    except ValueError:
        seed = 1
    t0 = time.monotonic()
    try:
        check_import_origin()
        from pv import model

        model.tables()  # snapshot of the definition tables as shipped, before anything is parsed
        mod = load(prop)
        if a.replay:
            bucket, msg = replay_file(mod, a.replay)
            if bucket is None:
                print(f"replay {a.replay}: property held")
                return 0
            print(f"replay {a.replay}: {bucket}: {msg}")
            print(f"VIOLATION property={prop} replay={a.replay}")
            return 1
        if a.tier == "quick" and "PV_CASE_LIMIT_S" not in os.environ:
            core.CASE_LIMIT_S = 60  # only the trigger of the deterministic step count (never a verdict); workers are forked and inherit it
        return run(mod, prop, a.tier, seed, a.scale, a.only, t0)
    except HarnessError as e:
        log(f"HARNESS ERROR: {e}")
        return 2
    except Exception:  # pylint: disable=broad-except
        log("HARNESS ERROR:\n" + traceback.format_exc())
        return 2


def run(mod, prop, tier, seed, scale, only, t0):
    subs = list(mod.SUBS)
    if only:
        names = set(only.split(","))
        subs = [s for s in subs if s.name in names]
    known = known_findings(prop)
    violations = []  # (bucket, path, msg)
    known_hits = Counter()

    # 1. regression tier: committed minimal cases of earlier findings
    reg_total = 0
    for path in sorted(glob.glob(os.path.join(ROOT, "regressions", prop, "*.json"))):
        reg_total += 1
        bucket, msg = replay_file(mod, path)
        if bucket is not None:
            with open(path, encoding="utf-8") as f:
                case = json.load(f)["case"]
            k = match_known(known, bucket, case)
            if k:
                known_hits[k["what"]] += 1
            else:
                violations.append((bucket, path, msg))

    # 2. generated / enumerated search, sharded
    shrink_budget = 25 if tier == "quick" else 120
    tasks = []
    for s in subs:
        for sh in range(s.shards[tier]):
            tasks.append((prop, s.name, tier, seed, sh, s.shards[tier], scale, shrink_budget))
    ctx = multiprocessing.get_context("fork")
    with ctx.Pool(min(NPROC, max(1, len(tasks))), initializer=_die_with_parent) as pool:
        results = pool.map(worker, tasks, chunksize=1)
    errs = [r for r in results if r["error"]]
    for r in errs[:3]:
        log(f"--- {r['sub']} shard {r['shard']}:\n{r['error']}")
    results = [r for r in results if not r["error"]]

    per = {}
    for s in subs:
        per[s.name] = {"evals": 0, "cases": 0, "nontrivial": set(), "case_counts": {}, "classes": Counter(), "samples": [], "wall": 0.0}
    failures = {}
    for r in results:
        p = per[r["sub"]]
        p["evals"] += r["evals"]
        p["cases"] += r["cases"]
        p["nontrivial"] |= r["nontrivial"]
        p["case_counts"].update(r["case_counts"])
        p["classes"].update(r["classes"])
        if len(p["samples"]) < 3:
            p["samples"].extend(r["samples"][: 3 - len(p["samples"])])
        p["wall"] += r["wall"]
        for bucket, ent in r["failures"].items():
            cur = failures.get(bucket)
            size = len(json.dumps(ent["case"], default=str))
            if cur is None or size < cur["size"]:
                failures[bucket] = {"sub": r["sub"], "case": ent["case"], "msg": ent["msg"], "size": size, "count": ent["count"] + (cur["count"] if cur else 0)}
            else:
                cur["count"] += ent["count"]

    excluded_known = 0
    for bucket, ent in sorted(failures.items()):
        k = match_known(known, bucket, ent["case"])
        if k:
            known_hits[k["what"]] += ent["count"]
            excluded_known += ent["count"]
            continue
        path = core.write_replay(prop, ent["sub"], bucket, ent["case"], ent["msg"])
        violations.append((bucket, path, ent["msg"]))

    # 3. vacuity guards
    starved = []
    if not only:
        for s in subs:
            for cls, need in s.need.items():
                n = need[tier] if isinstance(need, dict) else need
                if per[s.name]["classes"].get(cls, 0) < n * (scale if scale < 1 else 1):
                    starved.append(f"{s.name}: class '{cls}' seen {per[s.name]['classes'].get(cls, 0)} < {n}")

    # 4. evidence
    wall = time.monotonic() - t0
    def ntcount(name):
        return len(per[name]["nontrivial"]) + sum(per[name]["case_counts"].values())

    total_nt = sum(ntcount(s.name) for s in subs)
    samples = []
    for s in subs:
        for smp in per[s.name]["samples"][:2]:
            samples.append({"subcheck": s.name, "case": smp})
    ev = {
        "property_id": prop,
        "tier": tier,
        "seed": seed,
        "level": "exploration",
        "coverage": {
            "evaluations": sum(p["evals"] for p in per.values()) + reg_total,
            "distinct_nontrivial": total_nt,
            "rule": getattr(mod, "RULE", ""),
            "samples": samples[:24],
            "exhaustive": False,
            "regressions_replayed": reg_total,
            "excluded_known": excluded_known,
            "shards_inconclusive": len(errs),
            "partial_run_only": sorted(only.split(",")) if only else None,
            "subchecks": [
                {
                    "name": s.name,
                    "cases": per[s.name]["cases"],
                    "evaluations": per[s.name]["evals"],
                    "distinct_nontrivial": ntcount(s.name),
                    "rule": s.rule,
                    "exhaustive": bool(s.exhaustive),
                    "classes": dict(sorted(per[s.name]["classes"].items())),
                    "cpu_s": round(per[s.name]["wall"], 2),
                }
                for s in subs
            ],
            "violating_buckets": [{"bucket": b, "replay": os.path.relpath(p, ROOT), "message": m[:500]} for b, p, m in violations],
        },
        "assumptions": list(getattr(mod, "ASSUMPTIONS", [])),
        "wall_s": round(wall, 2),
        "violations": len(violations),
    }
    # evidence describes runs against /repo itself; runs redirected to a scratch copy (PV_REPO, developer tools)
    # must not overwrite it
    evdir = os.path.join(ROOT, "evidence") if os.path.realpath(core.REPO) == "/repo" and not os.environ.get("PV_EVIDENCE_SCRATCH") else os.path.join(ROOT, ".work", "evidence-scratch")
    os.makedirs(evdir, exist_ok=True)
    with open(os.path.join(evdir, f"{prop}.json"), "w", encoding="utf-8") as f:
        json.dump(ev, f, indent=1, default=str)

    for s in subs:
        p = per[s.name]
        log(f"[{prop}] {s.name}: cases={p['cases']} evals={p['evals']} nontrivial={ntcount(s.name)} cpu={p['wall']:.1f}s classes={dict(sorted(p['classes'].items()))}")
    for what, n in sorted(known_hits.items()):
        print(f"KNOWN-FINDING: property={prop} {what} (x{n})")
    for bucket, path, msg in violations:
        log(f"[{prop}] FAIL {bucket}: {msg[:600]}")
        print(f"VIOLATION property={prop} replay={path}")
    log(f"[{prop}] tier={tier} seed={seed} wall={wall:.1f}s violations={len(violations)}")
    if violations:
        if errs:
            log(f"[{prop}] note: {len(errs)} shard(s) also ended in a harness error (inconclusive); the violations above stand on their own replay files")
        return 1
    if errs:
        raise HarnessError(f"{len(errs)} shard(s) failed inside the harness")
    if starved:
        raise HarnessError("generator starved: " + "; ".join(starved))
    return 0


if __name__ == "__main__":
    sys.exit(main())
